"""
Reference model and shared oracles, written from the NIP texts.  Never imports nostr_relay.
"""
import hashlib
import math
import json

from coincurve import PublicKeyXOnly

HEX = set("0123456789abcdef")


def is_hex64(s):
    return isinstance(s, str) and len(s) == 64 and all(c in HEX for c in s)


def canon_bytes(ev):
    data = [0, ev["pubkey"], ev["created_at"], ev["kind"], ev["tags"], ev["content"]]
    return json.dumps(data, separators=(",", ":"), ensure_ascii=False).encode("utf-8")


def canon_id(ev):
    return hashlib.sha256(canon_bytes(ev)).hexdigest()


def _is_int(x):
    return isinstance(x, int) and not isinstance(x, bool)


def wellformed(ev):
    """NIP-01 shape of an event object"""
    try:
        if not isinstance(ev, dict):
            return False
        if not (is_hex64(ev.get("id")) and is_hex64(ev.get("pubkey"))):
            return False
        sig = ev.get("sig")
        if not (isinstance(sig, str) and len(sig) == 128 and all(c in HEX for c in sig)):
            return False
        if not (_is_int(ev.get("created_at")) and _is_int(ev.get("kind"))):
            return False
        if ev["created_at"] < 0 or not (0 <= ev["kind"] <= 65535):
            return False
        if not isinstance(ev.get("content"), str):
            return False
        tags = ev.get("tags")
        if not isinstance(tags, list):
            return False
        for t in tags:
            if not isinstance(t, list) or not t:
                return False
            if not all(isinstance(x, str) for x in t):
                return False
        return True
    except Exception:
        return False


def authentic(ev):
    """(ok, why) -- id is the lowercase sha256 of the canonical form, sig verifies under pubkey,
    every delegation tag is validly signed by the delegator"""
    try:
        if not isinstance(ev, dict):
            return False, "not an object"
        for f in ("id", "pubkey", "sig", "created_at", "kind", "tags", "content"):
            if f not in ev:
                return False, "missing " + f
        if not is_hex64(ev["id"]):
            return False, "id not lowercase 64-hex"
        if not is_hex64(ev["pubkey"]):
            return False, "pubkey not lowercase 64-hex"
        # (the statement asks for hash and signature, not for NIP-01 number shapes: a validly
        #  signed event with a fractional created_at is authentic; strings/bools are not numbers)
        for f in ("created_at", "kind"):
            if isinstance(ev[f], bool) or not isinstance(ev[f], (int, float)):
                return False, "created_at/kind not numbers"
            if isinstance(ev[f], float) and not math.isfinite(ev[f]):
                return False, "created_at/kind not finite (no canonical JSON form)"
        if not isinstance(ev["content"], str) or not isinstance(ev["tags"], list):
            return False, "content/tags type"
        try:
            cid = canon_id(ev)
        except Exception:
            return False, "not serializable"
        if cid != ev["id"]:
            return False, "id is not the hash"
        sig = ev["sig"]
        if not (isinstance(sig, str) and len(sig) == 128):
            return False, "sig shape"
        try:
            ok = PublicKeyXOnly(bytes.fromhex(ev["pubkey"])).verify(
                bytes.fromhex(sig), bytes.fromhex(cid)
            )
        except Exception:
            ok = False
        if not ok:
            return False, "bad signature"
        for t in ev["tags"]:
            if isinstance(t, list) and t and t[0] == "delegation":
                if len(t) != 4 or not all(isinstance(x, str) for x in t):
                    return False, "delegation tag shape"
                _, delegator, cond, dsig = t
                msg = hashlib.sha256(
                    ("nostr:delegation:%s:%s" % (ev["pubkey"], cond)).encode("utf-8")
                ).digest()
                try:
                    dok = PublicKeyXOnly(bytes.fromhex(delegator)).verify(bytes.fromhex(dsig), msg)
                except Exception:
                    dok = False
                if not dok:
                    return False, "bad delegation signature"
        return True, ""
    except Exception as e:  # pragma: no cover
        return False, "exception %r" % (e,)


def tag_values(ev, name):
    out = []
    for t in ev.get("tags") or []:
        if isinstance(t, (list, tuple)) and len(t) >= 2 and t[0] == name:
            out.append(t[1])
    return out


def delegators(ev):
    return [t[1] for t in ev.get("tags") or []
            if isinstance(t, (list, tuple)) and len(t) >= 2 and t[0] == "delegation"]


def wellformed_filter(f):
    """a filter as NIP-01 defines it (the only ones C02 speaks about)"""
    if not isinstance(f, dict):
        return False
    for k, v in f.items():
        if k in ("ids", "authors"):
            if not (isinstance(v, list) and all(is_hex64(x) for x in v)):
                return False
        elif k == "kinds":
            if not (isinstance(v, list) and all(_is_int(x) and 0 <= x <= 65535 for x in v)):
                return False
        elif k in ("since", "until", "limit"):
            if not (_is_int(v) and v >= 0):
                return False
        elif isinstance(k, str) and len(k) == 2 and k[0] == "#":
            if not (isinstance(v, list) and all(isinstance(x, str) for x in v)):
                return False
        else:
            return False
    return True


def matches(ev, f, boundary="inclusive", delegation=True, bare_as_empty=False):
    """NIP-01 filter matching on a filter exactly as the client sent it.
    Unknown keys are ignored; a field of the wrong shape matches nothing (soundness side:
    a rejected or garbled condition must never *widen* the answer).
    boundary: 'inclusive' (since <= t <= until) or 'strict' (since < t < until)."""
    if not isinstance(f, dict):
        return False
    for k, v in f.items():
        if k == "ids":
            if not isinstance(v, list):
                return False
            if not any(isinstance(x, str) and x.lower() == ev["id"] for x in v):
                return False
        elif k == "authors":
            if not isinstance(v, list):
                return False
            cand = [ev["pubkey"]] + (delegators(ev) if delegation else [])
            if not any(isinstance(x, str) and x.lower() in cand for x in v):
                return False
        elif k == "kinds":
            if not isinstance(v, list):
                return False
            if not any(_is_int(x) and x == ev["kind"] for x in v):
                return False
        elif k == "since":
            if not _is_int(v):
                return False
            if boundary == "strict":
                if not ev["created_at"] > v:
                    return False
            elif not ev["created_at"] >= v:
                return False
        elif k == "until":
            if not _is_int(v):
                return False
            if boundary == "strict":
                if not ev["created_at"] < v:
                    return False
            elif not ev["created_at"] <= v:
                return False
        elif isinstance(k, str) and len(k) == 2 and k[0] == "#":
            if not isinstance(v, list):
                return False
            have = tag_values(ev, k[1])
            if bare_as_empty and any(isinstance(t, (list, tuple)) and len(t) == 1 and t[0] == k[1]
                                     for t in ev.get("tags") or []):
                have = have + [""]      # a bare ["d"] may be read as the empty value (NIP-33)
            if not any(isinstance(x, str) and x in have for x in v):
                return False
    return True


def matches_any(ev, filters, boundary="inclusive"):
    return any(matches(ev, f, boundary) for f in filters if isinstance(f, dict))


# ---- kinds ------------------------------------------------------------------------------

def is_ephemeral(kind):
    return 20000 <= kind < 30000


def is_replaceable(kind):
    return kind in (0, 3) or 10000 <= kind < 20000


def is_param_replaceable(kind):
    return 30000 <= kind < 40000


def d_value(ev):
    """NIP-33: absent, bare ["d"] and ["d",""] identify the same (empty) address; the first d
    tag counts"""
    for t in ev["tags"]:
        if isinstance(t, (list, tuple)) and t and t[0] == "d":
            if len(t) > 1 and isinstance(t[1], str):
                return t[1]
            return ""
    return ""


def address(ev):
    k = ev["kind"]
    if is_replaceable(k):
        return (ev["pubkey"], k)
    if is_param_replaceable(k):
        return (ev["pubkey"], k, d_value(ev))
    return None


# ---- frames -----------------------------------------------------------------------------

class FrameError(Exception):
    pass


def _no_dups(pairs):
    d = {}
    for k, v in pairs:
        if k in d:
            raise FrameError("duplicate key %r" % k)
        d[k] = v
    return d


def _no_const(x):
    raise FrameError("non-finite number " + x)


def strict_loads(text):
    return json.loads(text, object_pairs_hook=_no_dups, parse_constant=_no_const)


def strict_frame(text):
    """parse a relay->client text frame; returns the list or raises FrameError"""
    if not isinstance(text, str):
        raise FrameError("not text")
    try:
        msg = strict_loads(text)
    except FrameError:
        raise
    except Exception as e:
        raise FrameError("not JSON: %s" % (str(e)[:60],))
    if not isinstance(msg, list) or not msg:
        raise FrameError("not an array")
    verb = msg[0]
    if verb == "EVENT":
        if len(msg) != 3 or not isinstance(msg[1], str) or not isinstance(msg[2], dict):
            raise FrameError("EVENT shape")
        ev = msg[2]
        need = {"id", "pubkey", "created_at", "kind", "tags", "content", "sig"}
        if set(ev.keys()) != need:
            raise FrameError("EVENT object keys %s" % sorted(ev.keys()))
    elif verb == "EOSE":
        if len(msg) != 2 or not isinstance(msg[1], str):
            raise FrameError("EOSE shape")
    elif verb == "OK":
        if len(msg) != 4 or not isinstance(msg[1], str) or not isinstance(msg[2], bool) \
                or not isinstance(msg[3], str):
            raise FrameError("OK shape")
    elif verb == "NOTICE":
        if len(msg) != 2 or not isinstance(msg[1], str):
            raise FrameError("NOTICE shape")
    elif verb == "AUTH":
        if len(msg) != 2 or not isinstance(msg[1], str):
            raise FrameError("AUTH shape")
    else:
        raise FrameError("unknown verb %r" % (verb,))
    return msg


def ev_key(ev):
    """hashable identity of a full event object (field for field)"""
    return json.dumps(ev, sort_keys=True, ensure_ascii=True, separators=(",", ":"))


def canon_expiration(v):
    """canonical decimal numeral -> int, else None"""
    if isinstance(v, str) and v.isascii() and v.isdigit() and (v == "0" or v[0] != "0"):
        return int(v)
    return None
