"""msgpack for the simulator: the pure-Python msgpack that ships inside pip, re-exported.
(/venv has no msgpack wheel; kv.py only needs packb/unpackb.)"""
from pip._vendor.msgpack import *  # noqa
from pip._vendor.msgpack import packb, unpackb, Packer, Unpacker, ExtType, Timestamp, version  # noqa
from pip._vendor.msgpack import exceptions  # noqa
