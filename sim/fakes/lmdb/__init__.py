"""
In-process stand-in for py-lmdb, used only by the simulator (the image has no lmdb wheel).

Semantics kept (the ones nostr_relay/storage/kv.py relies on):
  * one sorted keyspace, byte-wise ordering, unique keys
  * MVCC: read transactions pin the snapshot committed when they began; a write
    transaction works on a private copy that becomes the committed snapshot on commit()
    and is discarded on abort(); one write transaction at a time
  * `with txn:` commits on success, aborts on exception
  * cursor positioning rules of liblmdb 0.9.31 (checked against the C library, see
    selftest fidelity): unpositioned prev() -> last, failed set_range -> EOF and prev() -> last,
    deleting the key under a cursor then prev() -> predecessor / key() -> successor
  * keys longer than 511 bytes: BadValsizeError on put; map_size accounting: MapFullError
  * buffers=True hands out memoryviews

It is also the storage fault seam: FAULT_HOOK(op, env, txn, key) is consulted before every
get/put/delete/commit/cursor positioning of a *write* transaction and may raise; COMMIT_HOOK(env)
runs after every successful commit of a write transaction.
"""
import bisect

MAX_KEY = 511
version = lambda subpatch=False: (0, 9, 31)  # noqa

_ENVS = {}
FAULT_HOOK = None
COMMIT_HOOK = None


class Error(Exception):
    pass


class KeyExistsError(Error):
    pass


class NotFoundError(Error):
    pass


class MapFullError(Error):
    pass


class BadValsizeError(Error):
    pass


class BadTxnError(Error):
    pass


class ReadonlyError(Error):
    pass


class InvalidParameterError(Error):
    pass


class DiskError(Error):
    pass


class LockError(Error):
    pass


def reset_all():
    _ENVS.clear()


def open(path=None, **opts):  # noqa: A001
    return Environment(path, **opts)


class _Store:
    """durable state of one environment path"""

    def __init__(self):
        self.keys = []   # sorted list of bytes (treated as immutable once committed)
        self.data = {}   # key -> value
        self.commits = 0
        self.size = 0


class Environment:
    def __init__(self, path=None, map_size=10485760, **opts):
        self._path = path
        self.map_size = map_size
        self.opts = opts
        st = _ENVS.get(path)
        if st is None:
            st = _ENVS[path] = _Store()
        self._store = st
        self._writer = None
        self._closed = False
        self.readers = 0

    def path(self):
        return self._path

    def begin(self, db=None, parent=None, write=False, buffers=False):
        if self._closed:
            raise Error("Attempt to operate on closed/deleted/dropped object.")
        return Transaction(self, write=write, buffers=buffers)

    def close(self):
        if self._writer is not None:
            self._writer._abort()
        self._closed = True

    def sync(self, force=False):
        pass

    def max_key_size(self):
        return MAX_KEY

    def stat(self):
        return {
            "psize": 4096,
            "depth": 1,
            "branch_pages": 0,
            "leaf_pages": 1,
            "overflow_pages": 0,
            "entries": len(self._store.keys),
        }

    def info(self):
        return {"map_size": self.map_size, "last_txnid": self._store.commits}

    def __enter__(self):
        return self

    def __exit__(self, *a):
        self.close()

    # -- simulator side ------------------------------------------------------------------
    def snapshot(self):
        """committed state as (keys, data); never mutated afterwards"""
        st = self._store
        return st.keys, st.data

    def crash(self):
        """process death: the open write transaction is lost"""
        if self._writer is not None:
            self._writer._abort()
        self._closed = True


class Transaction:
    def __init__(self, env, write=False, buffers=False):
        self.env = env
        self.write = write
        self.buffers = buffers
        self._done = False
        st = env._store
        if write:
            if env._writer is not None:
                raise LockError("simulated single writer: a write transaction is already open")
            env._writer = self
            self.keys = list(st.keys)
            self.data = dict(st.data)
            self.size = st.size
            self.nops = 0
        else:
            self.keys = st.keys
            self.data = st.data
            env.readers += 1

    def _fault(self, op, key=None):
        if self.write and FAULT_HOOK is not None:
            FAULT_HOOK(op, self.env, self, key)

    def _check(self):
        if self._done:
            raise Error("Attempt to operate on closed/deleted/dropped object.")

    def _out(self, v):
        if v is None:
            return None
        return memoryview(v) if self.buffers else v

    # -- API ----------------------------------------------------------------------------
    def get(self, key, default=None, db=None):
        self._check()
        key = bytes(key)
        if len(key) == 0:
            raise BadValsizeError("mdb_get: MDB_BAD_VALSIZE")
        self._fault("get", key)
        v = self.data.get(key)
        if v is None:
            return default
        return self._out(v)

    def put(self, key, value, dupdata=True, overwrite=True, append=False, db=None):
        self._check()
        if not self.write:
            raise ReadonlyError("mdb_put: Permission denied")
        key = bytes(key)
        value = bytes(value)
        if len(key) == 0 or len(key) > MAX_KEY:
            raise BadValsizeError(
                "mdb_put: MDB_BAD_VALSIZE: Unsupported size of key/DB name/data, or wrong DUPFIXED size"
            )
        self._fault("put", key)
        old = self.data.get(key)
        if old is not None:
            if not overwrite:
                return False
            newsize = self.size - len(old) + len(value)
        else:
            newsize = self.size + len(key) + len(value) + 16
        if newsize > self.env.map_size:
            raise MapFullError("mdb_put: MDB_MAP_FULL: Environment mapsize limit reached")
        if old is None:
            bisect.insort(self.keys, key)
        self.data[key] = value
        self.size = newsize
        self.nops += 1
        return True

    def delete(self, key, value=b"", db=None):
        self._check()
        if not self.write:
            raise ReadonlyError("mdb_del: Permission denied")
        key = bytes(key)
        if len(key) == 0:
            raise BadValsizeError("mdb_del: MDB_BAD_VALSIZE")
        self._fault("delete", key)
        old = self.data.pop(key, None)
        if old is None:
            return False
        i = bisect.bisect_left(self.keys, key)
        del self.keys[i]
        self.size -= len(key) + len(old) + 16
        self.nops += 1
        return True

    def cursor(self, db=None):
        self._check()
        return Cursor(self)

    def stat(self, db=None):
        return {"entries": len(self.keys)}

    def commit(self):
        self._check()
        if self.write:
            try:
                self._fault("commit")
            except BaseException:
                self._abort()
                raise
            st = self.env._store
            st.keys = self.keys
            st.data = self.data
            st.size = self.size
            st.commits += 1
            self.env._writer = None
            self._done = True
            if COMMIT_HOOK is not None:
                COMMIT_HOOK(self.env)
        else:
            self._done = True
            self.env.readers -= 1

    def _abort(self):
        if self._done:
            return
        self._done = True
        if self.write:
            if self.env._writer is self:
                self.env._writer = None
        else:
            self.env.readers -= 1

    def abort(self):
        self._abort()

    def __enter__(self):
        return self

    def __exit__(self, exc_type, exc, tb):
        if self._done:
            return False
        if exc_type is not None:
            self._abort()
        else:
            self.commit()
        return False


_UNSET, _AT, _EOF, _FRONT = 0, 1, 2, 3


class Cursor:
    """position is remembered by key so that deletions under the cursor behave like liblmdb"""

    def __init__(self, txn):
        self.txn = txn
        self.state = _UNSET
        self.cur = None

    # helpers
    def _keys(self):
        self.txn._check()
        return self.txn.keys

    def _idx(self):
        """index of the entry the cursor currently designates (successor when the key it sat
        on has been deleted), or len(keys)"""
        return bisect.bisect_left(self._keys(), self.cur)

    def _set(self, i):
        keys = self._keys()
        if 0 <= i < len(keys):
            self.cur = keys[i]
            self.state = _AT
            return True
        return False

    def first(self):
        keys = self._keys()
        if keys:
            return self._set(0)
        self.state = _EOF
        return False

    def last(self):
        keys = self._keys()
        if keys:
            return self._set(len(keys) - 1)
        self.state = _EOF
        return False

    def set_range(self, key):
        key = bytes(key)
        if len(key) == 0:
            return self.first()
        self.txn._fault("seek", key)
        keys = self._keys()
        i = bisect.bisect_left(keys, key)
        if i < len(keys):
            return self._set(i)
        self.state = _EOF
        self.cur = None
        return False

    def set_key(self, key):
        key = bytes(key)
        keys = self._keys()
        i = bisect.bisect_left(keys, key)
        if i < len(keys) and keys[i] == key:
            return self._set(i)
        self.state = _EOF
        self.cur = None
        return False

    def prev(self):
        keys = self._keys()
        if self.state == _FRONT:
            # the C cursor still sits on the first key: MDB_PREV fails again
            return False
        if self.state != _AT:
            # unpositioned or EOF: MDB_PREV behaves as MDB_LAST
            return self.last()
        i = self._idx() - 1
        if i >= 0:
            return self._set(i)
        # at the first key: fails; the C cursor stays there, py-lmdb reports key() == b''
        self.state = _FRONT
        return False

    def next(self):
        keys = self._keys()
        if self.state == _UNSET:
            return self.first()
        if self.state == _EOF:
            return False
        i = self._idx()
        if i < len(keys) and keys[i] == self.cur:
            i += 1
        # (_FRONT: the C cursor is on the first key, MDB_NEXT moves to the second)
        if i < len(keys):
            return self._set(i)
        self.state = _EOF
        self.cur = None
        return False

    def key(self):
        if self.state != _AT:
            return self.txn._out(b"") if not self.txn.buffers else memoryview(b"")
        keys = self._keys()
        i = self._idx()
        if i >= len(keys):
            return memoryview(b"") if self.txn.buffers else b""
        return self.txn._out(keys[i])

    def value(self):
        if self.state != _AT:
            return memoryview(b"") if self.txn.buffers else b""
        keys = self._keys()
        i = self._idx()
        if i >= len(keys):
            return memoryview(b"") if self.txn.buffers else b""
        return self.txn._out(self.txn.data[keys[i]])

    def item(self):
        return self.key(), self.value()

    def get(self, key, default=None):
        if self.set_key(key):
            return self.value()
        return default

    def delete(self, dupdata=False):
        if self.state != _AT:
            return False
        keys = self._keys()
        i = self._idx()
        if i < len(keys) and keys[i] == self.cur:
            self.txn.delete(keys[i])
            return True
        return False

    def _iter(self, step, keys=True, values=True):
        if self.state == _UNSET:
            ok = self.first() if step > 0 else self.last()
        else:
            ok = self.state == _AT
        while ok:
            if keys and values:
                yield self.item()
            elif keys:
                yield self.key()
            else:
                yield self.value()
            ok = self.next() if step > 0 else self.prev()

    def iternext(self, keys=True, values=True):
        return self._iter(1, keys, values)

    def iterprev(self, keys=True, values=True):
        return self._iter(-1, keys, values)

    def __iter__(self):
        return self.iternext()

    def close(self):
        pass

    def __enter__(self):
        return self

    def __exit__(self, *a):
        self.close()
        return False
