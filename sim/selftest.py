"""self-tests of the machinery: smoke, determinism, sensitivity, fidelity"""
import json
import os
import subprocess
import sys

from . import runner


def smoke(a):
    runner.preload()
    chunks = [(0, {}, [{"idx": 0, "case": {"backend": b, "smoke": True}, "choices": None,
                        "sstr": "smoke"} for b in ("sql", "lmdb")])]
    res = runner.run_jobs("smoke", chunks, 1, 120)
    tag, recs, note = res[0]
    if not recs or any("harness_error" in r for r in recs):
        sys.stderr.write("smoke failed: %s %s\n" % (note, json.dumps(recs)[:3000]))
        return 2
    for r in recs:
        print("smoke ok: digest=%s steps=%d" % (r["digest"], r["steps"]))
    return 0


def determinism(a):
    """every property: N seeds, each run twice in different children, at jobs=1 and jobs=16,
    and once more in a fresh interpreter under another PYTHONHASHSEED"""
    runner.preload()
    props = [a.prop.upper()] if getattr(a, "prop", None) else sorted(
        f[:-3].upper() for f in os.listdir(os.path.join(os.path.dirname(__file__), "props"))
        if f.startswith("c") and f.endswith(".py"))
    n = a.runs or 200
    bad = 0
    for pid in props:
        prop = runner.load_prop(pid)
        digs = []
        for nproc, chunk in ((16, 7), (3, 50)):
            chunks = []
            idxs = list(range(n))
            for c in range(0, n, chunk):
                knobs = prop.chunk_knobs(0, 0) if hasattr(prop, "chunk_knobs") else {}
                chunks.append((c, knobs, [{"idx": i, "seed": a.seed} for i in idxs[c:c + chunk]]))
            res = runner.run_jobs(pid, chunks, nproc, 300)
            d = {}
            for tag, recs, note in res:
                for r in recs or []:
                    d[r["idx"]] = r.get("digest", r.get("harness_error", "?")[-200:])
            digs.append(d)
        diff = [i for i in range(n) if digs[0].get(i) != digs[1].get(i)]
        print("%s: %d seeds x 2 layouts, %d digest differences" % (pid, n, len(diff)))
        if diff:
            bad += 1
            print("   first differing run index:", diff[0], digs[0].get(diff[0]), digs[1].get(diff[0]))
        if os.environ.get("VERIF_HASHSEED_PASS") != "1" and getattr(prop, "HASHSEED_INDEPENDENT", True):
            env = dict(os.environ, PYTHONHASHSEED="12345", VERIF_HASHSEED_PASS="1")
            out = subprocess.run(
                ["/venv/bin/python", "-c",
                 "import sys; sys.path.insert(0,'.'); from sim import selftest; selftest.dump_digests(%r,%d,%r)"
                 % (pid, min(n, 60), str(a.seed))],
                env=env, capture_output=True, text=True, cwd=runner.VERIF)
            try:
                other = json.loads(out.stdout.strip().splitlines()[-1])
            except Exception:
                print("   hash-seed pass failed:", out.stderr[-500:])
                bad += 1
                continue
            d2 = [i for i in range(min(n, 60)) if other.get(str(i)) != digs[0].get(i)]
            print("   PYTHONHASHSEED=12345 fresh interpreter: %d differences over %d seeds" % (len(d2), min(n, 60)))
            if d2:
                bad += 1
    return 1 if bad else 0


def dump_digests(pid, n, seed):
    runner.preload()
    prop = runner.load_prop(pid)
    knobs = prop.chunk_knobs(0, 0) if hasattr(prop, "chunk_knobs") else {}
    try:
        seed = int(seed)
    except ValueError:
        pass
    res = runner.run_jobs(pid, [(0, knobs, [{"idx": i, "seed": seed} for i in range(n)])], 1, 600)
    d = {}
    for tag, recs, note in res:
        for r in recs or []:
            d[str(r["idx"])] = r.get("digest", "?")
    print(json.dumps(d))


def main(name, a):
    try:
        a.seed = int(a.seed)
    except ValueError:
        pass
    if name == "smoke":
        return smoke(a)
    if name == "determinism":
        return determinism(a)
    if name == "sensitivity":
        from . import sensitivity
        return sensitivity.main(a)
    if name == "fidelity":
        from . import fidelity
        return fidelity.main(a)
    sys.stderr.write("unknown selftest %r\n" % (name,))
    return 2
