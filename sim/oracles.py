"""
Shared oracles over Store-world observations.  Observed-state postconditions: from the observed
pre-state, the operation and the observed post-state compute must_remove / may_remove and
require  must_remove ∩ post = ∅,  pre \\ post ⊆ must ∪ may,  post \\ pre ⊆ {new event}.
"""
from . import model


def accepted(o):
    r = o.get("res") or []
    return len(r) >= 2 and r[0] == "ok" and r[1] is True


def replace_sets(pre, E):
    """C09: (must_remove, may_remove) ids for accepting E on pre-state"""
    addr = model.address(E)
    must, may = set(), set()
    if addr is None:
        return must, may
    for i, x in pre.items():
        if i == E["id"] or "kind" not in x:
            continue
        if model.address(x) == addr:
            if x["created_at"] < E["created_at"]:
                must.add(i)
            elif x["created_at"] == E["created_at"]:
                may.add(i)
    return must, may


def deletion_sets(pre, E):
    """C08: (must_remove, may_remove) for an accepted kind-5 event"""
    must, may = set(), set()
    if E["kind"] != 5:
        return must, may
    refs = set()
    for t in E["tags"]:
        if isinstance(t, list) and len(t) >= 2 and t[0] == "e" and isinstance(t[1], str):
            refs.add(t[1].lower())
            refs.add(t[1])
    for i, x in pre.items():
        if i == E["id"] or "kind" not in x:
            continue
        if i in refs and x["pubkey"] == E["pubkey"]:
            if x["created_at"] < E["created_at"]:
                must.add(i)
            else:
                may.add(i)
    return must, may


def expiration_verdict(v, T):
    """one expiration value at pass time T -> 'must' (remove), 'may', 'keep'.
    canonical numeral: decided by its value (the same second is free); a string some reasonable parser
    still reads as a number (leading zeros, sign, blanks, float syntax, non-ASCII digits) is free;
    anything else is not a timestamp at all: the event is 'another event' and stays"""
    c = model.canon_expiration(v)
    if c is not None:
        return "must" if c < int(T) else ("may" if c == int(T) else "keep")
    if isinstance(v, (int, float)) and not isinstance(v, bool):
        return "may"
    if isinstance(v, str):
        for parse in (int, float):
            try:
                parse(v)
                return "may"
            except (ValueError, OverflowError):
                pass
    return "keep"


def gc_sets(pre, T):
    """C17: (must_remove, may_remove) for a collection pass at time T"""
    must, may = set(), set()
    for i, x in pre.items():
        if "kind" not in x:
            continue
        if model.is_ephemeral(x["kind"]):
            must.add(i)
            continue
        exps = [t[1] if len(t) > 1 else None for t in x["tags"]
                if isinstance(t, list) and t and t[0] == "expiration"]
        if not exps:
            continue
        verdicts = {expiration_verdict(v, T) for v in exps}
        if verdicts == {"must"}:
            must.add(i)
        elif verdicts != {"keep"}:
            may.add(i)        # the same second, a doubtful numeral, or several tags that disagree
    return must, may


def brief(ev):
    if not isinstance(ev, dict) or "kind" not in ev:
        return ev
    return {"id": ev["id"][:8], "k": ev["kind"], "t": ev["created_at"], "a": ev["pubkey"][:6],
            "tags": [t for t in ev["tags"] if t and t[0] in ("d", "e", "expiration")][:4]}


def restart_changes(obs, backend):
    """a restart (orderly close, fresh set-up on the same durable state) is not an operation on the store: the
    events and their secondary structures (tag rows / index keys) are the same before and after.  Returns
    violations; every Store-world property appends them under its own id (whatever a restart removes, adds or
    un-indexes breaks that property's 'nothing else' clause)."""
    out = []
    for o in obs:
        if o["op"][0] != "restart" or "post" not in o or "pre" not in o:
            continue
        pre, post = o["pre"], o["post"]
        gone = sorted(set(pre) - set(post))
        new = sorted(set(post) - set(pre))
        if gone or new:
            x = pre[gone[0]] if gone else post[new[0]]
            out.append({"cls": "restart-changes-store", "sig": "restart-changes-store|%s|%s" % (backend, "removed" if gone else "added"),
                        "detail": {"removed": [brief(pre[i]) for i in gone[:4]], "added": [brief(post[i]) for i in new[:4]],
                                   "kind": x.get("kind")}})
            continue
        if "pre_full" in o and "post_full" in o:
            a, b = o["pre_full"][1], o["post_full"][1]
            if set(a) != set(b):
                lost = sorted(map(repr, set(a) - set(b)))[:3]
                extra = sorted(map(repr, set(b) - set(a)))[:3]
                out.append({"cls": "restart-changes-index", "sig": "restart-changes-index|%s|%s" % (backend, "lost" if lost else "extra"),
                            "detail": {"lost": [x[:80] for x in lost], "extra": [x[:80] for x in extra]}})
    return out
