"""
Shared oracles over Store-world observations.  Observed-state postconditions: from the observed
pre-state, the operation and the observed post-state compute must_remove / may_remove and
require  must_remove ∩ post = ∅,  pre \\ post ⊆ must ∪ may,  post \\ pre ⊆ {new event}.
"""
from . import model


def accepted(o):
    r = o.get("res") or []
    return len(r) >= 2 and r[0] == "ok" and r[1] is True


def replace_sets(pre, E):
    """C09: (must_remove, may_remove) ids for accepting E on pre-state"""
    addr = model.address(E)
    must, may = set(), set()
    if addr is None:
        return must, may
    for i, x in pre.items():
        if i == E["id"] or "kind" not in x:
            continue
        if model.address(x) == addr:
            if x["created_at"] < E["created_at"]:
                must.add(i)
            elif x["created_at"] == E["created_at"]:
                may.add(i)
    return must, may


def deletion_sets(pre, E):
    """C08: (must_remove, may_remove) for an accepted kind-5 event"""
    must, may = set(), set()
    if E["kind"] != 5:
        return must, may
    refs = set()
    for t in E["tags"]:
        if isinstance(t, list) and len(t) >= 2 and t[0] == "e" and isinstance(t[1], str):
            refs.add(t[1].lower())
            refs.add(t[1])
    for i, x in pre.items():
        if i == E["id"] or "kind" not in x:
            continue
        if i in refs and x["pubkey"] == E["pubkey"]:
            if x["created_at"] < E["created_at"]:
                must.add(i)
            else:
                may.add(i)
    return must, may


def gc_sets(pre, T):
    """C17: (must_remove, may_remove) for a collection pass at time T"""
    must, may = set(), set()
    for i, x in pre.items():
        if "kind" not in x:
            continue
        if model.is_ephemeral(x["kind"]):
            must.add(i)
            continue
        exps = [t[1] if len(t) > 1 else None for t in x["tags"]
                if isinstance(t, list) and t and t[0] == "expiration"]
        if not exps:
            continue
        if len(exps) > 1:
            may.add(i)
            continue
        v = model.canon_expiration(exps[0])
        if v is None:
            may.add(i)        # malformed: the statement only speaks of well-formed timestamps
        elif v < int(T):
            must.add(i)
        elif v == int(T):
            may.add(i)        # boundary second
    return must, may


def brief(ev):
    if not isinstance(ev, dict) or "kind" not in ev:
        return ev
    return {"id": ev["id"][:8], "k": ev["kind"], "t": ev["created_at"], "a": ev["pubkey"][:6],
            "tags": [t for t in ev["tags"] if t and t[0] in ("d", "e", "expiration")][:4]}
