"""
Batch supervisor: forks children that run simulated executions, aggregates coverage,
filters known findings, minimises and replays violations, writes evidence.

Exit codes: 0 property held on everything explored (KNOWN-FINDING lines possible),
            1 VIOLATION (line printed), 2 harness error.
"""
import faulthandler
import hashlib
import importlib
import json
import os
import random
import re
import sys
import time
import traceback
import collections

VERIF = os.path.dirname(os.path.dirname(os.path.abspath(__file__)))
REAL_TIME = time.time

OUT_DIR = "/dev/shm"
OUT_ROOT = os.environ.get("VERIF_OUT", VERIF)   # where evidence/ and replays/ are written


def load_prop(pid):
    return importlib.import_module("sim.props." + pid.lower())


def preload():
    """third-party imports shared by all children (never nostr_relay itself)"""
    import sqlalchemy  # noqa
    import sqlalchemy.ext.asyncio  # noqa
    import sqlalchemy.dialects.sqlite  # noqa
    import pydantic  # noqa
    import falcon  # noqa
    import falcon.asgi  # noqa
    import aiosqlite  # noqa
    import aionostr.event  # noqa
    import rapidjson  # noqa
    import coincurve  # noqa
    import yaml  # noqa
    import greenlet  # noqa
    from pip._vendor import msgpack  # noqa
    try:
        import websockets.exceptions  # noqa
    except Exception:
        pass


# ------------------------------------------------------------------------------------------
# one run (executed inside a child)
# ------------------------------------------------------------------------------------------

def seed_str(seed, pid, idx):
    return "%s/%s/%s" % (seed, pid, idx)


def execute(prop, case, choices=None, sstr="replay", keep_log=False):
    """run one case; choices=None -> generate mode"""
    from . import kernel
    if choices is None:
        ch = kernel.Chooser(sstr + "/sched")
    else:
        ch = kernel.Chooser(replay=choices)
    sim = kernel.Sim(ch, seed_str=case.get("entropy", sstr), profile=case.get("sched"),
                     step_cap=case.get("step_cap", 20000), keep_log=keep_log)
    t0 = REAL_TIME()
    res = prop.run(case, sim)
    res.setdefault("violations", [])
    res.setdefault("probes", {})
    for k, v in sim.probes.items():
        if k not in res["probes"]:
            res["probes"][k] = v
    res["digest"] = sim.log.digest()
    res["choices"] = list(ch.choices)
    res["steps"] = sim.steps
    res["sim_time"] = sim.clock.mono
    res["faults"] = dict(sim.faults)
    res["actions"] = dict(sim.action_counts)
    res["wall"] = REAL_TIME() - t0
    if keep_log:
        res["log"] = sim.log.entries
    return res


def child_main(pid, knobs, jobs, outpath, deadline_s):
    """jobs: list of dicts {idx, seed} or {idx, case, choices}"""
    faulthandler.dump_traceback_later(deadline_s, exit=True)
    from . import seams
    out = []
    try:
        seams.install_process(knobs)
        prop = load_prop(pid)
        for j in jobs:
            rec = {"idx": j["idx"]}
            try:
                if "case" in j:
                    case = j["case"]
                    res = execute(prop, case, j.get("choices"), sstr=j.get("sstr", "replay"),
                                  keep_log=j.get("keep_log", False))
                else:
                    sstr = seed_str(j["seed"], pid, j["idx"])
                    rng = random.Random(sstr + "/gen")
                    case = prop.gen(rng, knobs)
                    res = execute(prop, case, None, sstr=sstr)
                rec.update(res)
                if res["violations"] or j.get("want_case"):
                    rec["case"] = case
                elif "sample" not in rec and j.get("sample"):
                    rec["sample"] = prop.sample(case) if hasattr(prop, "sample") else case
            except BaseException as e:  # harness error, never a verdict
                if isinstance(e, (KeyboardInterrupt, SystemExit)):
                    raise
                rec["harness_error"] = traceback.format_exc()[-3000:]
            out.append(rec)
    except BaseException:
        out.append({"idx": -1, "harness_error": traceback.format_exc()[-3000:]})
    with open(outpath, "w") as f:
        json.dump(out, f)
    faulthandler.cancel_dump_traceback_later()


class Pool:
    """fork-per-chunk supervisor with deadlines"""

    def __init__(self, nproc):
        self.nproc = nproc
        self.live = {}     # pid -> (tag, outpath, started, deadline)
        self.serial = 0

    def submit(self, tag, pid_prop, knobs, jobs, deadline_s=120):
        self.serial += 1
        outpath = os.path.join(OUT_DIR, "nrsim-out-%d-%d.json" % (os.getpid(), self.serial))
        sys.stdout.flush()
        sys.stderr.flush()
        cpid = os.fork()
        if cpid == 0:
            code = 0
            try:
                child_main(pid_prop, knobs, jobs, outpath, deadline_s)
            except BaseException:
                traceback.print_exc()
                code = 3
            finally:
                sys.stdout.flush()
                sys.stderr.flush()
                os._exit(code)
        self.live[cpid] = (tag, outpath, REAL_TIME(), deadline_s + 15)

    def full(self):
        return len(self.live) >= self.nproc

    def reap(self, block=True):
        """returns list of (tag, records|None, note)"""
        done = []
        while self.live:
            try:
                cpid, status = os.waitpid(-1, os.WNOHANG)
            except ChildProcessError:
                break
            if cpid == 0:
                # deadlines
                now = REAL_TIME()
                for p, (tag, outpath, started, dl) in list(self.live.items()):
                    if now - started > dl:
                        try:
                            os.kill(p, 9)
                        except OSError:
                            pass
                if done or not block:
                    break
                time.sleep(0.005)
                continue
            if cpid not in self.live:
                continue
            tag, outpath, started, dl = self.live.pop(cpid)
            recs = None
            note = ""
            if os.path.exists(outpath):
                try:
                    with open(outpath) as f:
                        recs = json.load(f)
                except Exception as e:
                    note = "unreadable child output: %r" % (e,)
                os.unlink(outpath)
            else:
                note = "child died (status %d) without output" % status
            done.append((tag, recs, note))
            if not block:
                continue
            break
        return done

    def drain(self):
        out = []
        while self.live:
            out.extend(self.reap(block=True))
        return out


def run_jobs(pid_prop, chunks, nproc, deadline_s=120, stop_when=None):
    """chunks: list of (tag, knobs, jobs). yields (tag, recs, note) as they finish"""
    pool = Pool(nproc)
    it = iter(chunks)
    pending = True
    results = []
    stop = False
    while pending or pool.live:
        while pending and not pool.full() and not stop:
            try:
                tag, knobs, jobs = next(it)
            except StopIteration:
                pending = False
                break
            pool.submit(tag, pid_prop, knobs, jobs, deadline_s)
        if stop:
            pending = False
        got = pool.reap(block=True)
        for g in got:
            results.append(g)
            if stop_when is not None and stop_when(g):
                stop = True
        if not pool.live and not pending:
            break
    return results


# ------------------------------------------------------------------------------------------
# known findings
# ------------------------------------------------------------------------------------------

def load_known(pid):
    path = os.path.join(VERIF, "known_findings.json")
    if not os.path.exists(path):
        return []
    with open(path) as f:
        data = json.load(f)
    return [k for k in data.get("findings", []) if k["property"] == pid]


def match_known(known, v):
    for k in known:
        m = k["match"]
        if "cls" in m and m["cls"] != v.get("cls"):
            continue
        if "sig" in m and not re.fullmatch(m["sig"], v.get("sig", "")):
            continue
        return k
    return None


# ------------------------------------------------------------------------------------------
# shrinking
# ------------------------------------------------------------------------------------------

def _get_path(case, path):
    cur = case
    for p in path:
        cur = cur[p]
    return cur


def _set_path(case, path, val):
    cur = case
    for p in path[:-1]:
        cur = cur[p]
    cur[path[-1]] = val


def _list_paths(case, spec):
    """expand ['clients','*','script'] into concrete paths"""
    paths = [[]]
    for s in spec:
        nxt = []
        for p in paths:
            try:
                cur = _get_path(case, p)
            except (KeyError, IndexError, TypeError):
                continue
            if s == "*":
                if isinstance(cur, list):
                    nxt.extend(p + [i] for i in range(len(cur)))
                elif isinstance(cur, dict):
                    nxt.extend(p + [k] for k in cur)
            else:
                if (isinstance(cur, dict) and s in cur) or (isinstance(cur, list) and isinstance(s, int) and s < len(cur)):
                    nxt.append(p + [s])
        paths = nxt
    return [p for p in paths if isinstance(_get_path(case, p), list)]


LOOSE_KNOWN = None     # set during shrinking: list of known findings of the property


def same_violation(res, target):
    """the same violation again: same class and signature; while shrinking also the same class with
    another signature, provided that signature is not a listed known finding"""
    for v in res.get("violations", []):
        if v.get("cls") == target["cls"] and v.get("sig") == target["sig"]:
            return v
    if LOOSE_KNOWN is not None:
        for v in res.get("violations", []):
            if v.get("cls") == target["cls"] and match_known(LOOSE_KNOWN, v) is None:
                return v
    return None


def evaluate_many(pid, knobs, cands, nproc, deadline_s=60):
    """cands: list of (case, choices). returns list of result recs (or None) in order"""
    chunks = [(i, knobs, [{"idx": i, "case": c, "choices": ch}]) for i, (c, ch) in enumerate(cands)]
    res = run_jobs(pid, chunks, nproc, deadline_s)
    out = [None] * len(cands)
    for tag, recs, note in res:
        if recs:
            out[tag] = recs[0]
    return out


def shrink(pid, prop, knobs, case, choices, target, nproc, budget_s=90):
    """ddmin over the case's lists, then over the choice sequence"""
    t_end = REAL_TIME() + budget_s
    best_case, best_choices = case, choices
    best_v = target
    specs = getattr(prop, "SHRINK", [["ops"]])
    improved = True
    rounds = 0
    while improved and REAL_TIME() < t_end and rounds < 12:
        improved = False
        rounds += 1
        for spec in specs:
            for path in _list_paths(best_case, spec):
                lst = _get_path(best_case, path)
                n = len(lst)
                if n == 0:
                    continue
                gran = max(1, n // 2)
                while gran >= 1 and REAL_TIME() < t_end:
                    lst = _get_path(best_case, path)
                    n = len(lst)
                    if n == 0:
                        break
                    cands = []
                    spans = []
                    for start in range(0, n, gran):
                        c = json.loads(json.dumps(best_case))
                        l2 = _get_path(c, path)
                        del l2[start:start + gran]
                        cands.append((c, best_choices))
                        spans.append(start)
                    recs = evaluate_many(pid, knobs, cands[:64], nproc)
                    hit = None
                    for (c, _), r in zip(cands, recs):
                        if r and "harness_error" not in r and same_violation(r, target):
                            hit = (c, r["choices"])
                            best_v = same_violation(r, target)
                            break
                    if hit:
                        best_case, best_choices = hit
                        improved = True
                        if gran > len(_get_path(best_case, path)):
                            gran = max(1, len(_get_path(best_case, path)))
                    else:
                        if gran == 1:
                            break
                        gran = max(1, gran // 2)
        if hasattr(prop, "simplify"):
            for c in prop.simplify(best_case, best_v):
                if REAL_TIME() > t_end:
                    break
                r = evaluate_many(pid, knobs, [(c, best_choices)], 1)[0]
                if r and "harness_error" not in r and same_violation(r, target):
                    best_case, best_choices = c, r["choices"]
                    best_v = same_violation(r, target)
                    improved = True
    # schedule: zero blocks, then truncate
    ch = list(best_choices)
    block = max(1, len(ch) // 2)
    while block >= 1 and REAL_TIME() < t_end and any(ch):
        cands = []
        for start in range(0, len(ch), block):
            if any(ch[start:start + block]):
                c2 = ch[:start] + [0] * len(ch[start:start + block]) + ch[start + block:]
                cands.append((best_case, c2))
        if not cands:
            break
        recs = evaluate_many(pid, knobs, cands[:64], nproc)
        hit = None
        for (c, c2), r in zip(cands, recs):
            if r and "harness_error" not in r and same_violation(r, target):
                hit = r["choices"]
                break
        if hit is not None and hit != ch:
            ch = hit
        else:
            if block == 1:
                break
            block //= 2
    while ch and ch[-1] == 0:
        ch.pop()
    return best_case, ch


# ------------------------------------------------------------------------------------------
# replay
# ------------------------------------------------------------------------------------------

def replay_file(path, nproc=1, verbose=False, times=1):
    with open(path) as f:
        rp = json.load(f)
    pid = rp["property"]
    outs = []
    for _ in range(times):
        chunks = [(0, rp.get("knobs", {}), [{"idx": 0, "case": rp["case"], "choices": rp["choices"],
                                              "keep_log": verbose}])]
        res = run_jobs(pid, chunks, 1, 120)
        tag, recs, note = res[0]
        outs.append(recs[0] if recs else {"harness_error": note})
    return rp, outs


def write_replay(pid, knobs, case, choices, v, digest, subdir="replays"):
    d = os.path.join(OUT_ROOT, subdir, pid)
    os.makedirs(d, exist_ok=True)
    body = {
        "property": pid,
        "knobs": knobs,
        "case": case,
        "choices": choices,
        "expect": {"cls": v["cls"], "sig": v["sig"], "digest": digest, "detail": v.get("detail")},
    }
    h = hashlib.sha256(json.dumps(body, sort_keys=True).encode()).hexdigest()[:12]
    path = os.path.join(d, "%s-%s.json" % (re.sub(r"[^A-Za-z0-9]+", "_", v["cls"])[:30], h))
    with open(path, "w") as f:
        json.dump(body, f, indent=1, sort_keys=True)
    return path


# ------------------------------------------------------------------------------------------
# batch
# ------------------------------------------------------------------------------------------

def run_check(pid, tier="quick", seed=0, nproc=16, runs=None, wall_cap=None, quiet=False):
    t_start = REAL_TIME()
    preload()
    prop = load_prop(pid)
    known = load_known(pid)
    budget = prop.BUDGET[tier]
    n_runs = runs if runs is not None else budget["runs"]
    wall_cap = wall_cap or budget.get("wall", 600)
    chunk = getattr(prop, "CHUNK", 50)
    deadline = getattr(prop, "CHUNK_DEADLINE", 180)
    print("VERIF_SEED=%s property=%s tier=%s runs=%d jobs=%d" % (seed, pid, tier, n_runs, nproc))
    sys.stdout.flush()
    harness_errors = []
    exit_code = 0

    # 1. known findings: replay exemplars
    known_hits = collections.Counter()
    for k in known:
        ex = k.get("exemplar")
        if not ex:
            print("KNOWN-FINDING: property=%s %s" % (pid, k["what"]))
            continue
        rp, outs = replay_file(os.path.join(VERIF, ex))
        r = outs[0]
        if "harness_error" in r:
            harness_errors.append("exemplar %s: %s" % (ex, r["harness_error"]))
            continue
        vs = [v for v in r.get("violations", []) if match_known([k], v)]
        if vs:
            print("KNOWN-FINDING: property=%s %s" % (pid, k["what"]))
        else:
            sys.stderr.write("note: known finding %s no longer reproduces (exemplar %s); "
                             "move it to 'fixed'\n" % (k["id"], ex))

    # 2. the search
    chunks = []
    n_chunks = (n_runs + chunk - 1) // chunk
    for c in range(n_chunks):
        knobs = prop.chunk_knobs(seed, c) if hasattr(prop, "chunk_knobs") else {}
        jobs = [{"idx": i, "seed": seed, "sample": (i % chunk == 0)}
                for i in range(c * chunk, min(n_runs, (c + 1) * chunk))]
        chunks.append((c, knobs, jobs))
    knobs_of = {c: k for c, k, _ in chunks}

    agg = {
        "evaluations": 0, "sigs": set(), "nontrivial": 0, "probes": collections.Counter(),
        "faults": collections.Counter(), "actions": collections.Counter(), "steps": 0,
        "sim_time": 0.0, "samples": [], "viol": [], "known_tally": collections.Counter(),
        "wall_runs": 0.0,
    }

    def on_chunk(g):
        tag, recs, note = g
        if recs is None:
            harness_errors.append("chunk %s: %s" % (tag, note))
            return False
        for r in recs:
            if "harness_error" in r:
                harness_errors.append("run %s: %s" % (r.get("idx"), r["harness_error"]))
                continue
            agg["evaluations"] += 1
            agg["steps"] += r.get("steps", 0)
            agg["sim_time"] += r.get("sim_time", 0.0)
            agg["wall_runs"] += r.get("wall", 0.0)
            agg["probes"].update(r.get("probes", {}))
            agg["faults"].update(r.get("faults", {}))
            agg["actions"].update(r.get("actions", {}))
            if r.get("nontrivial"):
                agg["nontrivial"] += 1
                agg["sigs"].add(r.get("signature", r["digest"]))
            if "sample" in r and len(agg["samples"]) < 3:
                agg["samples"].append(r["sample"])
            for v in r.get("violations", []):
                k = match_known(known, v)
                if k is not None:
                    agg["known_tally"][k["id"]] += 1
                else:
                    agg["viol"].append((tag, r, v))
        return len(agg["viol"]) >= 3 or (REAL_TIME() - t_start) > wall_cap or len(harness_errors) > 5

    run_jobs(pid, chunks, nproc, deadline, stop_when=on_chunk)

    # 3. violations: minimise, write replay, verify replay
    reported = []
    seen = set()
    for tag, r, v in agg["viol"]:
        key = (v["cls"], v["sig"])
        if key in seen:
            continue
        seen.add(key)
        if len(reported) >= 3:
            break
        knobs = knobs_of[tag]
        case, choices = r["case"], r["choices"]
        global LOOSE_KNOWN
        v_orig = v
        try:
            LOOSE_KNOWN = known
            case2, choices2 = shrink(pid, prop, knobs, case, choices, v, nproc,
                                     budget_s=getattr(prop, "SHRINK_BUDGET", 60))
        except Exception:
            harness_errors.append("shrink: " + traceback.format_exc()[-1500:])
            case2, choices2 = case, choices
        # confirm in fresh processes, twice
        recs = evaluate_many(pid, knobs, [(case2, choices2), (case2, choices2)], 2)
        ok = all(x and "harness_error" not in x and same_violation(x, v) for x in recs)
        same_digest = ok and recs[0]["digest"] == recs[1]["digest"]
        if ok:
            v = same_violation(recs[0], v)      # the (possibly re-labelled) minimised violation
            LOOSE_KNOWN = None
            ok = all(same_violation(x, v) for x in recs)
        LOOSE_KNOWN = None
        if not ok or not same_digest:
            v = v_orig
            # fall back to the unminimised run
            recs = evaluate_many(pid, knobs, [(case, choices), (case, choices)], 2)
            ok = all(x and "harness_error" not in x and same_violation(x, v) for x in recs)
            same_digest = ok and recs[0]["digest"] == recs[1]["digest"]
            case2, choices2 = case, choices
        if not ok or not same_digest:
            harness_errors.append("violation %s/%s does not replay deterministically" % key)
            continue
        vv = same_violation(recs[0], v)
        path = write_replay(pid, knobs, case2, recs[0]["choices"], vv, recs[0]["digest"])
        print("VIOLATION property=%s replay=%s" % (pid, path))
        print("  class=%s sig=%s" % (vv["cls"], vv["sig"]))
        print("  detail=%s" % json.dumps(vv.get("detail"), sort_keys=True, default=str)[:1500])
        reported.append(path)
        exit_code = 1

    wall = REAL_TIME() - t_start
    for kid, n in sorted(agg["known_tally"].items()):
        sys.stderr.write("known finding %s hit in %d runs of the search\n" % (kid, n))

    # 4. evidence
    ev = {
        "property_id": pid,
        "tier": tier,
        "seed": int(seed),
        "level": prop.LEVEL,
        "coverage": {
            "evaluations": agg["evaluations"],
            "distinct_nontrivial": len(agg["sigs"]),
            "rule": prop.RULE,
            "samples": agg["samples"] or ["(no sample captured)"],
            "nontrivial_runs": agg["nontrivial"],
            "probes": dict(sorted(agg["probes"].items())),
            "faults_fired": dict(sorted(agg["faults"].items())),
            "scheduler_actions": dict(sorted(agg["actions"].items())),
            "scheduler_steps": agg["steps"],
            "simulated_seconds": round(agg["sim_time"], 3),
            "runs_per_hour": int(agg["evaluations"] / wall * 3600) if wall > 0 else 0,
            "known_findings_hit": dict(agg["known_tally"]),
            "components": getattr(prop, "COMPONENTS", {}),
            "exhaustive": False,
        },
        "assumptions": getattr(prop, "ASSUMPTIONS", []),
        "wall_s": round(wall, 2),
        "violations": len(reported),
    }
    if hasattr(prop, "evidence_extra"):
        ev["coverage"].update(prop.evidence_extra(agg))
    if harness_errors:
        ev["coverage"]["harness_errors"] = harness_errors[:5]
    os.makedirs(os.path.join(OUT_ROOT, "evidence"), exist_ok=True)
    with open(os.path.join(OUT_ROOT, "evidence", "%s.json" % pid), "w") as f:
        json.dump(ev, f, indent=1, sort_keys=True, default=str)

    if not quiet:
        print("runs=%d distinct_nontrivial=%d steps=%d wall=%.1fs violations=%d known_hits=%s" % (
            agg["evaluations"], len(agg["sigs"]), agg["steps"], wall, len(reported),
            dict(agg["known_tally"])))
    if harness_errors:
        sys.stderr.write("HARNESS ERROR (%d):\n%s\n" % (len(harness_errors), harness_errors[0]))
        if exit_code == 0:
            exit_code = 2
    return exit_code
