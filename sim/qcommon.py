"""
Shared pieces of the query properties (C01, C02, C11, C12): collision-prone stores, filter
grammars, plan labelling, answer comparison.
"""
import hashlib

from . import histgen, model, evgen

T0 = histgen.T0


def collide_store(rng, n=None, authors=3):
    """events built to collide in byte order: prefix-related tag values, equal timestamps,
    kinds sharing bytes, ids/pubkeys with extreme first bytes come from the key/ts choices"""
    h = histgen.Hist(rng, nauthors=authors)
    n = n if n is not None else rng.randint(1, 30)
    kinds = [1, 1, 7, 256, 257, 65536 - 1, 0, 2, 16777216 % 65536 or 4]
    tvals = ["x", "xy", "xyz", "x\x00", "", "y", "é", "éa", "X"]
    times = [T0 - 10, T0 - 10, T0 - 10, T0 - 11, T0 - 9, T0 - 100, T0 - 256, T0 - 65536, T0]
    for _ in range(n):
        a = rng.choice(h.authors)
        k = rng.choice(kinds)
        tags = []
        for _ in range(rng.choice([0, 1, 1, 2, 3, 4])):
            nm = rng.choice(["t", "t", "t", "p", "e", "g"])
            if nm == "p":
                tags.append(["p", h.pub(rng.choice(h.authors))])
            elif nm == "e" and h.events:
                tags.append(["e", rng.choice(h.events)["id"]])
            else:
                tags.append([nm, rng.choice(tvals)])
        if rng.random() < 0.1:
            tags.append(evgen.delegation_tag(evgen.AUTHORS[rng.choice(h.authors)],
                                             h.pub(a)))
        ev = evgen.make(a, kind=k, created_at=rng.choice(times), tags=tags,
                        content="q%d" % len(h.events))
        h.events.append(ev)
        h.add(ev)
    return h


def filter_shape(f):
    """abstract shape of a filter: which fields, single or multiple values"""
    parts = []
    for k in sorted(f):
        v = f[k]
        if isinstance(v, list):
            parts.append("%s%s" % ("#" if k.startswith("#") else k, "*" if len(set(map(str, v))) > 1 else ""))
        else:
            parts.append(k)
    return "+".join(parts)


def plan_label(backend, f):
    """which index the LMDB planner picks (for coverage probes and signatures)"""
    if backend != "lmdb":
        return "sql"
    try:
        from nostr_relay.storage import kv
        plans = kv.planner([dict(f)])
        if not plans:
            return "noplan"
        idx = plans[0].index
        if isinstance(idx, kv.MultiIndex):
            return "Multi(" + ",".join(type(i[0]).__name__.replace("Index", "") for i in idx.indexes) + ")"
        return type(idx).__name__.replace("Index", "")
    except Exception as e:
        return "planner-raises:" + type(e).__name__


def ids_of(result):
    return [e["id"] for e in result]


def h16(x):
    return hashlib.sha256(repr(x).encode()).hexdigest()[:16]
