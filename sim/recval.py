"""recording wrappers around the configured validator callables (C16): the storage options name
sim.recval.v0, v1, ... and each wrapper notes (validator, event id, global stamp, wall clock,
outcome) before delegating to the real function"""
import importlib

from . import seams

CALLS = []
_REAL = {}


def _make(i, path):
    mod, name = path.rsplit(".", 1)
    real = getattr(importlib.import_module(mod), name)

    def wrapper(event, config):
        s = seams.CUR
        rec = {"v": path.split(".")[-1], "id": getattr(event, "id", None), "seq": s.stamp() if s else 0,
               "now": s.clock.wall() if s else 0.0, "out": "pass"}
        CALLS.append(rec)
        try:
            return real(event, config)
        except BaseException as e:
            rec["out"] = "raise:%s" % type(e).__name__
            rec["msg"] = str(e)[:100]
            raise
    wrapper.__name__ = "v%d" % i
    return wrapper


def install(paths):
    """returns the dotted names to put into storage options"""
    del CALLS[:]
    names = []
    for i, p in enumerate(paths):
        globals()["v%d" % i] = _make(i, p)
        names.append("sim.recval.v%d" % i)
    return names
