"""
Workload generators shared by the Store/Relay-world properties: event pools built to collide
(same author+kind, equal timestamps, prefix-related tag values, byte-order neighbours) and
filter grammars.  Everything is materialised as plain JSON.
"""
from . import evgen, model

T0 = 1_700_000_000          # == kernel.EPOCH0: "now" of the virtual clock at start

KINDS_REG = [1, 1, 1, 7, 4, 6, 9999, 40000, 256, 65535]
KINDS_REPL = [0, 3, 10000, 19999]
KINDS_PARAM = [30000, 39999, 30023]
KINDS_EPH = [20000, 29999, 25000]
D_VALUES = [None, "BARE", "", "a", "ab", "abc", "é"]
TAG_VALS = ["x", "xy", "xyz", "", "a", "ab", "é", "a b", "X", "x\x00y", "it's", 'q"q', "back\\slash",
            "%", "_", "\U0001f600"]
TAG_NAMES = ["t", "p", "e", "r", "g", "T", "é"]


def ts(rng, spread="grid"):
    if spread == "grid":
        return T0 - rng.choice([0, 10, 10, 20, 20, 30, 50, 100, 1000])
    if spread == "tight":
        return T0 - rng.choice([10, 10, 11, 12])
    return T0 - rng.randint(0, 5000)


def hexid(rng):
    return "%064x" % rng.getrandbits(256)


class Hist:
    """incremental history builder that remembers what it created"""

    def __init__(self, rng, nauthors=3):
        self.rng = rng
        self.authors = list(range(nauthors))
        self.events = []       # all generated events (dicts)
        self.ops = []

    def pub(self, a):
        return evgen.AUTHORS[a % len(evgen.AUTHORS)].pub

    # -- individual events ------------------------------------------------------------------
    def regular(self, author=None, kind=None, tags=None, created_at=None, content=None):
        r = self.rng
        a = r.choice(self.authors) if author is None else author
        k = r.choice(KINDS_REG) if kind is None else kind
        if tags is None:
            tags = self.some_tags()
        ev = evgen.make(a, kind=k, created_at=ts(r) if created_at is None else created_at,
                        tags=tags, content=content if content is not None else "c%d" % len(self.events))
        self.events.append(ev)
        return ev

    def some_tags(self, maxn=3):
        r = self.rng
        tags = []
        for _ in range(r.choice([0, 0, 1, 1, 2, maxn])):
            name = r.choice(TAG_NAMES[:5])
            if name == "p":
                tags.append(["p", self.pub(r.choice(self.authors))])
            elif name == "e" and self.events and r.random() < 0.7:
                tags.append(["e", r.choice(self.events)["id"]])
            elif name == "e":
                tags.append(["e", hexid(r)])
            else:
                tags.append([name, r.choice(TAG_VALS[:8])])
        return tags

    def replaceable(self, author=None, kind=None, created_at=None, d=None, param=None):
        r = self.rng
        a = r.choice(self.authors[:2]) if author is None else author
        if param is None:
            param = r.random() < 0.5
        if kind is None:
            kind = r.choice(KINDS_PARAM[:2]) if param else r.choice(KINDS_REPL)
        tags = []
        if model.is_param_replaceable(kind):
            dv = r.choice(D_VALUES) if d is None else d
            if dv == "BARE":
                tags.append(["d"])
            elif dv is not None:
                tags.append(["d", dv])
            if r.random() < 0.3:
                tags.append(["t", r.choice(TAG_VALS[:3])])
        elif r.random() < 0.4:
            # a d tag on a kind that is addressed by author and kind alone: it must not split the address
            dv = r.choice(D_VALUES[1:])
            tags.append(["d"] if dv == "BARE" else ["d", dv])
        ev = evgen.make(a, kind=kind, created_at=ts(r, "tight") if created_at is None else created_at,
                        tags=tags, content="v%d" % len(self.events))
        self.events.append(ev)
        return ev

    def deletion(self, author=None, targets=None, created_at=None, extra=None):
        r = self.rng
        a = r.choice(self.authors) if author is None else author
        if targets is None:
            targets = []
            own = [e for e in self.events if e["pubkey"] == self.pub(a)]
            other = [e for e in self.events if e["pubkey"] != self.pub(a)]
            for _ in range(r.choice([1, 1, 2, 3])):
                c = r.random()
                if c < 0.5 and own:
                    targets.append(r.choice(own)["id"])
                elif c < 0.75 and other:
                    targets.append(r.choice(other)["id"])
                else:
                    targets.append(hexid(r))
        tags = [["e", t] for t in targets] + (extra or [])
        ev = evgen.make(a, kind=5, created_at=(T0 - r.choice([0, 5, 10, 20, 60])) if created_at is None else created_at,
                        tags=tags, content="del")
        self.events.append(ev)
        return ev

    def ephemeral(self, author=None):
        r = self.rng
        ev = evgen.make(r.choice(self.authors) if author is None else author,
                        kind=r.choice(KINDS_EPH), created_at=ts(r), tags=self.some_tags(2),
                        content="eph%d" % len(self.events))
        self.events.append(ev)
        return ev

    def expiring(self, value, author=None, kind=1):
        r = self.rng
        ev = evgen.make(r.choice(self.authors) if author is None else author, kind=kind,
                        created_at=ts(r), tags=[["expiration", value]] + self.some_tags(1),
                        content="exp")
        self.events.append(ev)
        return ev

    def add(self, ev):
        self.ops.append(["add", ev])
        return ev


# ---------------------------------------------------------------------------------------------
# filters
# ---------------------------------------------------------------------------------------------

def wellformed_filter(rng, events, shape=None, allow_limit=False):
    """a NIP-01 filter aimed at the given events; shape selects the planner outcome"""
    shapes = ["ids", "ids+kinds", "kinds", "authors", "authors+kinds", "tags", "time",
              "kinds+time", "authors+time", "tags+kinds", "tags+authors", "ids+time", "tags+time",
              "authors+kinds+tags", "tags2", "tags2x"]
    shape = shape or rng.choice(shapes)
    f = {}
    pick = (lambda: rng.choice(events)) if events else None
    if shape == "tags2x":
        # two tag conditions, one of them listing several values that a single event carries, the other
        # one usually NOT satisfied by that event
        multi = []
        for e in events:
            by = {}
            for t in e["tags"]:
                if len(t) >= 2 and len(t[0]) == 1 and isinstance(t[1], str):
                    by.setdefault(t[0], set()).add(t[1])
            multi += [(e, n, sorted(v)) for n, v in by.items() if len(v) >= 2]
        if multi:
            e, n, vals = rng.choice(multi)
            f["#" + n] = vals[:3]
            others = [(t[0], t[1]) for e2 in events for t in e2["tags"]
                      if len(t) >= 2 and len(t[0]) == 1 and t[0] != n and isinstance(t[1], str)]
            if others and rng.random() < 0.7:
                n2, v2 = rng.choice(others)
                f["#" + n2] = [v2]
            else:
                f["#" + rng.choice([x for x in "tpegr" if x != n])] = [rng.choice(TAG_VALS[:6]) or "q"]
            return f
        shape = "tags2"
    parts = shape.split("+")
    for p in parts:
        if p == "ids":
            ids = [pick()["id"] for _ in range(rng.choice([1, 1, 2, 3]))] if events else []
            if rng.random() < 0.3 or not ids:
                ids.append(hexid(rng))
            f["ids"] = ids
        elif p == "kinds":
            ks = [pick()["kind"] for _ in range(rng.choice([1, 1, 2, 3]))] if events else [1]
            if rng.random() < 0.2:
                ks.append(rng.choice([2, 255, 257, 65536 - 1, 30001]))
            f["kinds"] = ks
        elif p == "authors":
            au = [pick()["pubkey"] for _ in range(rng.choice([1, 1, 2]))] if events else []
            if rng.random() < 0.2 or not au:
                au.append(hexid(rng))
            f["authors"] = au
        elif p in ("tags", "tags2"):
            for _ in range(2 if p == "tags2" else 1):
                cands = [(t[0], t[1]) for e in events for t in e["tags"]
                         if len(t) >= 2 and len(t[0]) == 1 and isinstance(t[1], str)]
                if cands and rng.random() < 0.85:
                    n, v = rng.choice(cands)
                    vals = [v]
                    for _ in range(rng.choice([0, 0, 1, 2])):
                        if rng.random() < 0.5:
                            vals.append(rng.choice([c[1] for c in cands if c[0] == n]))
                        else:
                            vals.append(rng.choice([v + "z", v[:-1], v + v]))
                    f["#" + n] = vals
                else:
                    f["#" + rng.choice(TAG_NAMES[:5])] = [rng.choice(TAG_VALS[:8])]
        elif p == "time":
            base = pick()["created_at"] if events else T0
            c = rng.random()
            if rng.random() < 0.06:
                # the zero bounds: {"until": 0} matches nothing, {"since": 0} restricts nothing
                # ({"since": 0} on its own is the unrestricted filter: only C02 generates that, by name)
                f[rng.choice(["until", "until", "since"]) if len(parts) > 1 else "until"] = 0
            elif rng.random() < 0.08:
                # bounds far from the data AND from the wall clock (which stands near T0): an `until` hours / years
                # ahead of now, a `since` decades back; they restrict nothing that is stored, and mean what they say
                far = rng.choice(["until", "until", "since", "both"])
                if far in ("until", "both"):
                    f["until"] = T0 + rng.choice([3700, 7200, 10 ** 5, 10 ** 8])
                if far in ("since", "both"):
                    f["since"] = rng.choice([1, 10 ** 6, T0 - 10 ** 8])
            elif c < 0.4:
                f["since"] = base + rng.choice([-1, 0, 1, -10])
            elif c < 0.7:
                f["until"] = base + rng.choice([-1, 0, 1, 10])
            else:
                lo = base + rng.choice([-20, -1, 0])
                f["since"] = lo
                f["until"] = lo + rng.choice([0, 1, 10, 30])
    if allow_limit and rng.random() < 0.3:
        f["limit"] = rng.choice([1000, 5000])
    return f


def stall_knob(rng, p=0.15):
    """scheduler profile entries that stall one residue class of SQL connections (slow disk / busy worker
    thread): their jobs are picked much more rarely than everything else"""
    if rng.random() >= p:
        return {}
    m = rng.choice([2, 3, 3, 4])
    return {"stall_mod": m, "stall_rem": rng.choice([0, rng.randrange(m)]), "stall_scale": rng.choice([0.02, 0.1])}


def pool_knob(rng, backend, p=0.5):
    """storage options that size the SQL back end's semaphores (tuning knobs a deployment may set): small values
    make a leaked or never-released slot visible after one or two incidents instead of ten"""
    if backend != "sql" or rng.random() >= p:
        return {}
    return {"num_concurrent_reqs": rng.choice([1, 2, 3, 10]), "num_concurrent_adds": rng.choice([1, 2, 4])}


def crowd(rng, h, n=None, same_address=True, matching_kind=1):
    """many short-lived or idle connections in one process lifetime (long-run effects: identifiers wrapping,
    periodic sweeps, tables filling up): n connections, most behind one address, each opening ONE subscription
    under one of a few ids (so ids repeat across connections), then one publisher.  Returns client specs."""
    import json
    n = n or rng.choice([70, 130, 140, 260, 300])
    clients = []
    for i in range(n):
        sid = rng.choice(["s", "s", "x", "feed"])
        script = [["send", json.dumps(["REQ", sid, {"kinds": [matching_kind]}])]]
        spec = {"script": script}
        if same_address and rng.random() < 0.9:
            spec["addr"] = "10.9.9.9"
        clients.append(spec)
    return clients
