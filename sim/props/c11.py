"""
C11 -- query answers are unaffected by unrelated data and monotone in the filter.

Store world, both back ends, validators off so that ids and pubkeys can be crafted as byte-order
neighbours.  Standing probe filters are re-evaluated after every history step; steps add and
remove events that differ from an anchor in exactly one attribute so that they do NOT match.
Plus metamorphic pairs: f vs f+condition, f vs narrower window, values V1 u V2 vs V1, V2.
"""
import collections
import copy

from .. import histgen, model, qcommon, kernel
from ..worlds import store

ID = "C11"
LEVEL = "exploration"
CHUNK = 40
BUDGET = {"quick": {"runs": 1200, "wall": 150}, "thorough": {"runs": 100000, "wall": 1200}}
RULE = ("3-6 anchor events, 5-9 standing probe filters derived from them (every field combination, "
        "single and multi values), then 6-20 steps adding/removing non-matching neighbours (kind +-1, "
        "+-256, tag value extended/truncated/NUL-extended/case-changed, pubkey and id differing in the "
        "first or last byte incl. 00../ff.., timestamps just outside windows, other tag names) and "
        "deleting them again; all probes re-queried after every step; metamorphic pairs at the end; both "
        "back ends; non-trivial = a probe with a non-empty answer survived >=3 unrelated steps; distinct "
        "= hash of (backend, probe shapes, step kinds)")
COMPONENTS = {
    "real": ["kv scanners/planner/matcher", "db.Subscription.build_query + SQLite", "delete_event",
             "WriterThread add/del tasks"],
    "stub": ["LMDB engine (fake)", "threads (actors)", "validators (configured off: crafted ids/pubkeys)"],
}
ASSUMPTIONS = ["storage is configured without validators so that ids/pubkeys can be chosen freely; the "
               "query code does not depend on signatures",
               "whether an event stamped exactly on a since/until bound belongs to an answer is the back "
               "end's choice, but the relations are evaluated on whole answers: that choice must not depend "
               "on unrelated events or on the other conditions of the filter"]
SHRINK = [["steps"], ["probes"]]

T0 = histgen.T0


def hx(rng, first=None, last=None):
    b = bytearray(rng.getrandbits(8) for _ in range(32))
    if first is not None:
        b[0] = first
    if last is not None:
        b[31] = last
    return bytes(b).hex()


def craft(rng, pubkey, kind, created_at, tags, eid=None):
    return {"id": eid or hx(rng), "pubkey": pubkey, "created_at": created_at, "kind": kind,
            "tags": tags, "content": "", "sig": "00" * 64}


def bump(h, pos, delta):
    b = bytearray(bytes.fromhex(h))
    b[pos] = (b[pos] + delta) % 256
    return bytes(b).hex()


def neighbour(rng, a):
    """an event differing from anchor a in one attribute (never equal in that attribute)"""
    e = copy.deepcopy(a)
    e["id"] = rng.choice([bump(a["id"], 31, 1), bump(a["id"], 31, -1), bump(a["id"], 0, 1),
                          bump(a["id"], 0, -1), hx(rng, first=0xff), hx(rng, first=0), hx(rng)])
    what = rng.choice(["kind", "kind", "pubkey", "tag", "tag", "tag", "time", "id-only", "tagname"])
    if what == "kind":
        e["kind"] = max(0, a["kind"] + rng.choice([1, -1, 256, -256, 65536, 16777216, 255]))
        if e["kind"] == a["kind"]:
            e["kind"] += 1
    elif what == "pubkey":
        e["pubkey"] = rng.choice([bump(a["pubkey"], 31, 1), bump(a["pubkey"], 31, -1),
                                  bump(a["pubkey"], 0, 1), bump(a["pubkey"], 0, -1)])
    elif what == "tag" and a["tags"]:
        i = rng.randrange(len(a["tags"]))
        v = a["tags"][i][1]
        nv = rng.choice([v + "a", v + "\x00", v + "\x00a", v[:-1], v + v, v.upper() if v.upper() != v else v + "A",
                         v + "ÿ", "\x00" + v, v + " "])
        if nv == v:
            nv = v + "b"
        e["tags"] = [list(t) for t in a["tags"]]
        e["tags"][i][1] = nv
    elif what == "tagname" and a["tags"]:
        i = rng.randrange(len(a["tags"]))
        e["tags"] = [list(t) for t in a["tags"]]
        n = e["tags"][i][0]
        e["tags"][i][0] = rng.choice(["T", "u", "s", "tt"]) if n == "t" else "t"
    elif what == "time":
        e["created_at"] = a["created_at"] + rng.choice([-1, 1, -256, 256, -65536, 65536, -2, 2])
    else:
        # same everything but the id: this one DOES match what the anchor matches
        pass
    return e, what


def gen(rng, knobs):
    if not knobs.get("_no_modes") and rng.random() < 0.12:
        return gen_race(rng, knobs)
    backend = rng.choice(["sql", "lmdb"])
    pubs = [hx(rng, first=rng.choice([0, 0xff, None])) for _ in range(3)]
    anchors = []
    for i in range(rng.randint(3, 6)):
        tags = [["t", rng.choice(["x", "xy", "é", "a b"])]]
        if rng.random() < 0.5:
            tags.append([rng.choice(["p", "e"]), hx(rng)])
        if rng.random() < 0.4:
            tags.append(["t", rng.choice(["y", "xyz", "b"])])       # two values under one name
        anchors.append(craft(rng, rng.choice(pubs), rng.choice([1, 1, 7, 256, 0x10000 - 1]),
                             T0 - rng.choice([10, 10, 20, 300]), tags,
                             eid=hx(rng, first=rng.choice([0, 0xff, None, None]))))
    probes = []
    far_events = []
    for _ in range(rng.randint(5, 9)):
        a = rng.choice(anchors)
        shape = rng.choice(["kinds", "authors", "authors+kinds", "tag", "ids", "window", "kinds+since", "ptag", "ptag+tag*",
                            "tag+until", "authors+tag", "kinds*", "tag*", "authors*", "tag+kinds",
                            "ids+kinds", "authors+kinds+tag", "tag+window",
                            "kinds*+until", "authors*+until", "tag*+until", "kinds*+window", "authors+kinds*+until"])
        f = {}
        b = rng.choice(anchors)
        if "kinds" in shape:
            f["kinds"] = [a["kind"]] + ([b["kind"], a["kind"] + 2] if "*" in shape else [])
        if "authors" in shape:
            f["authors"] = [a["pubkey"]] + ([b["pubkey"]] if "*" in shape else [])
        if any(part in ("tag", "tag*") for part in shape.split("+")):
            t = a["tags"][0]
            f["#" + t[0]] = [t[1]] + ([b["tags"][0][1], t[1] + "zz"] if "*" in shape else [])
        if "ptag" in shape:
            others = [t for t in a["tags"] if t[0] in ("p", "e")] or [["p", hx(rng)]]
            f["#" + others[0][0]] = [others[0][1]] if rng.random() < 0.5 else [hx(rng)]
        if "ids" in shape:
            f["ids"] = [a["id"], b["id"]]
        if "window" in shape:
            f["since"] = a["created_at"] - rng.choice([0, 1, 5])
            f["until"] = a["created_at"] + rng.choice([0, 1, 5])
        if "since" in shape:
            f["since"] = a["created_at"] - rng.choice([0, 1, 5, 100])
        if "until" in shape:
            f["until"] = a["created_at"] + rng.choice([0, 1, 5, 100])
        if rng.random() < 0.12:
            # a bound far from the data and from the wall clock (hours / years ahead of now, decades back): it
            # restricts nothing that is stored - and an event dated beyond it still does not match
            far = T0 + rng.choice([3700, 7200, 10 ** 5, 10 ** 8])
            f["until"] = far
            if rng.random() < 0.3:
                f["since"] = rng.choice([1, 10 ** 6, T0 - 10 ** 8])
            if rng.random() < 0.3:
                f = {k: f[k] for k in ("since", "until") if k in f}        # the bare window
            far_events.append(craft(rng, a["pubkey"], a["kind"], far + rng.choice([1, 5, 1000]), [list(t) for t in a["tags"]]))
        probes.append(f)
    steps = []
    added = []
    for e in far_events:
        steps.append(["add", e, "beyond-far-until"])
        added.append(e)
    for _ in range(rng.randint(6, 20)):
        c = rng.random()
        if c < 0.7 or not added:
            e, what = neighbour(rng, rng.choice(anchors))
            steps.append(["add", e, what])
            added.append(e)
        elif c < 0.9:
            e = added.pop(rng.randrange(len(added)))
            steps.append(["del", e["id"]])
        else:
            steps.append(["restart"])
    return {"backend": backend, "anchors": anchors, "probes": probes, "steps": steps,
            "via": rng.choice(["query", "sub"])}


def gen_race(rng, knobs):
    """LMDB scans on pool threads racing with the writer thread storing UNRELATED events, pre-empted at the
    bytecode boundaries of kv.py: a query's answer must not depend on what is being written next to it"""
    base = gen(rng, dict(knobs, _no_modes=True))
    base["backend"] = "lmdb"
    base["mode"] = "race"
    adds = [s for s in base["steps"] if s[0] == "add"][:rng.choice([1, 1, 2])]
    base["steps"] = adds
    base["probes"] = base["probes"][:rng.choice([1, 2, 3])]
    if rng.random() < 0.65:
        # chained (multi-index) plans with several candidates, and writes that make the WRITER scan indexes too
        # (a kind-5 event walks its author's keys, a replaceable one the author+kind keys)
        X, Z = hx(rng), hx(rng)
        v = rng.choice(["v", "x", "ab"])
        k = rng.choice([1, 7])
        base["anchors"] = [craft(rng, X, k, T0 - 10 * i, [["t", v]] + ([["p", hx(rng)]] if rng.random() < 0.3 else []))
                           for i in range(1, rng.randint(3, 6))]
        base["anchors"] += [craft(rng, hx(rng), k, T0 - 5, [["t", v]]), craft(rng, X, k + 1, T0 - 7, [["t", "other"]])]
        base["probes"] = rng.sample([{"authors": [X], "#t": [v]}, {"kinds": [k], "#t": [v]},
                                     {"authors": [X], "kinds": [k], "#t": [v]}, {"authors": [X], "kinds": [k]},
                                     {"authors": [X, hx(rng)], "#t": [v, "zz"]}], rng.choice([1, 2, 3]))
        writes = [craft(rng, Z, 5, T0 - 1, [["e", hx(rng)]]), craft(rng, Z, 0, T0 - 2, []),
                  craft(rng, Z, 10002, T0 - 3, [["r", "wss://x"]]), craft(rng, Z, 30001, T0 - 4, [["d", "q"]]),
                  craft(rng, Z, 3, T0 - 6, [["p", hx(rng)]])]
        base["steps"] = [["add", e, "writer-scan"] for e in rng.sample(writes, rng.choice([1, 2, 3]))]
    base["weights"] = rng.choice([{"stay": 10.0, "switch": 1.0, "start": 1.0}, {"stay": 40.0, "switch": 1.0, "start": 3.0},
                                  {"stay": 3.0, "switch": 1.0, "start": 1.0}])
    return base


def run_race(case, sim):
    from ..worlds import lists as lw
    from .. import seams
    w = store.StoreWorld(sim, "lmdb", storage_opts={"validators": []})
    viol = []
    out = {}

    async def main(_):
        import logging
        await w.env.open()
        await w.settle()
        try:
            from nostr_relay.storage import kv
            st = w.env.storage
            for i, a in enumerate(case["anchors"]):
                await w.do(i, ["add", a])
            await w.settle()
            log = logging.getLogger("nrsim.race")
            pre = w.env.dump()

            def ask(f):
                plans = kv.planner([dict(f)], default_limit=600000)
                got = []
                for plan in plans:
                    _p, events = kv.execute_one_plan(st.db, plan, log)
                    got += [e.id for e in events]
                return sorted(set(got))
            alone = [ask(f) for f in case["probes"]]
            # queue the unrelated writes without letting the writer actor take them
            actor = getattr(st.writer_thread, "_actor", None)
            if actor is not None:
                actor.finished = True
            for s_ in case["steps"]:
                await st.add_event(copy.deepcopy(s_[1]))
            q = st.writer_thread.queue

            def writer_step():
                while q.q:
                    q.armed = True
                    try:
                        st.writer_thread.run()
                    except seams._Park:
                        pass
                return "written"
            fns = [(lambda f=f: ask(f)) for f in case["probes"]] + [writer_step]
            race = lw.ThreadRace(sim, lw.module_codes(kv), fns, case.get("weights"))
            jobs = race.run()
            out["jobs"] = [(j.result, repr(j.exc) if j.exc is not None else None) for j in jobs]
            out["alone"] = alone
            out["boundaries"], out["switches"] = race.boundaries, race.switches
            if actor is not None:
                actor.finished = False
            await w.settle()
            out["after"] = [ask(f) for f in case["probes"]]
        finally:
            await w.env.close()

    try:
        kernel.run_sim(sim, main)
    finally:
        w.env.cleanup()
    added = [s_[1] for s_ in case["steps"]]
    for pi, f in enumerate(case["probes"]):
        res, exc = out["jobs"][pi]
        if any(model.matches(e, f, "inclusive") for e in added):
            continue          # the write is related to this probe: either answer is fine
        if exc is not None:
            viol.append({"cls": "query-raises-under-concurrent-write", "sig": "query-raises-under-concurrent-write|%s" % exc[:30],
                         "detail": {"filter": f, "exc": exc}})
        elif res != out["alone"][pi] or out["after"][pi] != out["alone"][pi]:
            viol.append({"cls": "unrelated-change", "sig": "unrelated-change|lmdb|%s|%s|concurrent-write" % (
                qcommon.plan_label("lmdb", f), qcommon.filter_shape(f)),
                         "detail": {"filter": f, "alone": [x[:8] for x in out["alone"][pi]], "during": [x[:8] for x in (res or [])],
                                    "after": [x[:8] for x in out["after"][pi]],
                                    "written": [{"id": e["id"][:8], "kind": e["kind"], "pubkey": e["pubkey"][:8], "tags": e["tags"]} for e in added]}})
    wres, wexc = out["jobs"][-1]
    if wexc is not None:
        viol.append({"cls": "writer-raises", "sig": "writer-raises|%s" % wexc[:30], "detail": {"exc": wexc}})
    sim.note("race", "%s %s" % (out.get("boundaries"), out.get("switches")))
    return {"violations": viol[:1], "nontrivial": out.get("switches", 0) > len(case["probes"]) + 1 and any(out["alone"]),
            "probes": {"mode_race": 1, "race_bytecode_boundaries": out.get("boundaries", 0),
                       "race_thread_switches": out.get("switches", 0), "backend_lmdb": 1},
            "signature": qcommon.h16(("race", [qcommon.filter_shape(f) for f in case["probes"]], out.get("switches"),
                                      [len(a) for a in out["alone"]]))}


def sample(case):
    if case.get("mode") == "race":
        return {"mode": "race", "probes": case["probes"][:3], "writes": [s_[2] for s_ in case["steps"]], "weights": case["weights"]}
    return {"backend": case["backend"], "probes": case["probes"][:4],
            "steps": [[s[0], s[2] if s[0] == "add" else s[1][:8] if len(s) > 1 else ""] for s in case["steps"]][:10],
            "anchors": len(case["anchors"])}


def inside(ev, f):
    """strictly inside every window bound (boundary events are free)"""
    return model.matches(ev, f, "strict")


def on_boundary(ev, f):
    return (isinstance(f.get("since"), int) and ev["created_at"] == f["since"]) or \
           (isinstance(f.get("until"), int) and ev["created_at"] == f["until"])


def run(case, sim):
    if case.get("mode") == "race":
        return run_race(case, sim)
    backend = case["backend"]
    via = case.get("via", "query")
    w = store.StoreWorld(sim, backend, storage_opts={"validators": []})
    viol = []
    probes_c = collections.Counter()
    answers = {}          # probe index -> set of ids (boundary events removed)
    stable = collections.Counter()

    async def ask(i, f, tag):
        o = await w.do(1000 + i, [via, [copy.deepcopy(f)]])
        r = o["res"]
        if r[0] != "ok":
            viol.append({"cls": "query-error", "sig": "query-error|%s|%s" % (backend, r[1]),
                         "detail": {"filter": f, "res": r[:3]}})
            return None
        return r[1]

    async def main(_):
        await w.env.open()
        await w.settle()
        try:
            for i, a in enumerate(case["anchors"]):
                await w.do(i, ["add", a])
            await w.settle()
            store_now = w.env.dump()
            for pi, f in enumerate(case["probes"]):
                got = await ask(pi, f, "init")
                if got is not None:
                    answers[pi] = {e["id"] for e in got}
            for si, step in enumerate(case["steps"]):
                pre = w.env.dump()
                if step[0] == "add":
                    await w.do(100 + si, ["add", step[1]])
                elif step[0] == "del":
                    await w.do(100 + si, ["del", step[1]])
                else:
                    await w.do(100 + si, ["restart"])
                await w.settle()
                post = w.env.dump()
                changed = [pre[i] for i in set(pre) - set(post)] + [post[i] for i in set(post) - set(pre)]
                for pi, f in enumerate(case["probes"]):
                    if pi not in answers:
                        continue
                    got = await ask(pi, f, "step")
                    if got is None:
                        continue
                    now = {e["id"] for e in got}
                    related = any(model.matches(e, f, "inclusive") for e in changed)
                    if not related:
                        probes_c["unrelated_rechecks"] += 1
                        if now != answers[pi]:
                            plan = qcommon.plan_label(backend, f)
                            viol.append({
                                "cls": "unrelated-change",
                                "sig": "unrelated-change|%s|%s|%s|%s" % (
                                    backend, plan, qcommon.filter_shape(f),
                                    step[0] + (":" + step[2] if step[0] == "add" else "")),
                                "detail": {"filter": f, "step": [step[0], step[2] if step[0] == "add" else step[1:]],
                                           "changed": [{"id": e["id"][:8], "kind": e["kind"], "t": e["created_at"],
                                                        "pubkey": e["pubkey"][:8], "tags": e["tags"]} for e in changed],
                                           "lost": sorted(x[:8] for x in answers[pi] - now),
                                           "gained": sorted(x[:8] for x in now - answers[pi])}})
                        elif now:
                            stable[pi] += 1
                    answers[pi] = now
            # metamorphic pairs on the final store
            final = w.env.dump()
            for pi, f in enumerate(case["probes"][:5]):
                base = await ask(pi, f, "meta")
                if base is None:
                    continue
                base_ids = {e["id"] for e in base}
                a = case["anchors"][pi % len(case["anchors"])]
                # (1) adding a condition never adds results
                g = dict(f)
                if "kinds" not in g:
                    g["kinds"] = [a["kind"]]
                elif "authors" not in g:
                    g["authors"] = [a["pubkey"]]
                elif "#t" not in g:
                    g["#t"] = [a["tags"][0][1]]
                elif "ids" not in g:
                    g["ids"] = [a["id"]]
                # ... or a multi-value tag condition built from one event's own values
                tv = sorted({t[1] for t in a["tags"] if t[0] == "t"})
                if len(tv) >= 2 and "#t" not in f and pi % 2 == 0:
                    g = dict(f)
                    g["#t"] = tv
                if g != f:
                    narrower = await ask(pi, g, "meta")
                    if narrower is not None:
                        extra = {e["id"] for e in narrower} - base_ids
                        probes_c["pairs_condition"] += 1
                        if extra:
                            viol.append({"cls": "condition-adds-results",
                                         "sig": "condition-adds-results|%s|%s" % (backend, qcommon.filter_shape(g)),
                                         "detail": {"f": f, "f_and": g, "extra": sorted(x[:8] for x in extra)}})
                # (1b) ... seen from the other side: f is its own time window plus conditions, so its answer
                # lies inside the answer to the bare window (served by the created_at index on LMDB)
                tw = {k: f[k] for k in ("since", "until") if k in f}
                if tw and len(tw) < len(f) and any(tw.values()):
                    wide = await ask(pi, tw, "meta")
                    if wide is not None:
                        extra = base_ids - {e["id"] for e in wide}
                        probes_c["pairs_bare_window"] += 1
                        if extra:
                            viol.append({"cls": "condition-adds-results",
                                         "sig": "condition-adds-results|%s|%s" % (backend, qcommon.filter_shape(f)),
                                         "detail": {"f": tw, "f_and": f, "extra": sorted(x[:8] for x in extra)}})
                # (2) shrinking the window never adds results
                g = dict(f)
                g["since"] = max(g.get("since", 0), a["created_at"] - 3)
                g["until"] = min(g.get("until", 2 ** 31 - 1), a["created_at"] + 3)
                narrower = await ask(pi, g, "meta")
                if narrower is not None:
                    extra = {e["id"] for e in narrower} - base_ids
                    probes_c["pairs_window"] += 1
                    if extra:
                        viol.append({"cls": "window-adds-results",
                                     "sig": "window-adds-results|%s|%s" % (backend, qcommon.filter_shape(g)),
                                     "detail": {"f": f, "f_narrow": g, "extra": sorted(x[:8] for x in extra)}})
                # (3) union over values
                for key in [k for k in f if isinstance(f[k], list) and len(f[k]) > 1][:1]:
                    parts = set()
                    ok = True
                    for v in f[key]:
                        g = dict(f)
                        g[key] = [v]
                        r = await ask(pi, g, "meta")
                        if r is None:
                            ok = False
                            break
                        parts |= {e["id"] for e in r}
                    if ok:
                        probes_c["pairs_union"] += 1
                        if parts != base_ids:
                            viol.append({"cls": "union-mismatch",
                                         "sig": "union-mismatch|%s|%s|%s" % (backend, qcommon.plan_label(backend, f),
                                                                             qcommon.filter_shape(f)),
                                         "detail": {"f": f, "key": key,
                                                    "only_in_union": sorted(x[:8] for x in parts - base_ids),
                                                    "only_in_whole": sorted(x[:8] for x in base_ids - parts)}})
        finally:
            await w.env.close()

    try:
        kernel.run_sim(sim, main)
    finally:
        w.env.cleanup()
    seen, v2 = set(), []
    for v in viol:
        if v["sig"] not in seen:
            seen.add(v["sig"])
            v2.append(v)
    probes_c["backend_" + backend] = 1
    nontrivial = any(n >= 3 for n in stable.values())
    return {"violations": v2, "nontrivial": nontrivial, "probes": dict(probes_c),
            "signature": qcommon.h16((backend, sorted(qcommon.filter_shape(f) for f in case["probes"]),
                                      [s[0] + (s[2] if s[0] == "add" else "") for s in case["steps"]]))}
