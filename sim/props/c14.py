"""
C14 -- role-based authorization is enforced on every read and write path.

Relay world with authentication enabled: random action->roles maps over the alphabet {a,r,w,s,x},
role assignments written with set_auth_roles and read back, connections that stay anonymous or
authenticate (NIP-42) as identities with various role sets, EVENT and REQ on both back ends, and an
output validator that must hold for every event sent, stored or live.
"""
import collections
import copy
import json

from .. import histgen, model, qcommon, evgen
from ..worlds import relay

ID = "C14"
LEVEL = "exploration"
CHUNK = 40
BUDGET = {"quick": {"runs": 2500, "wall": 150}, "thorough": {"runs": 100000, "wall": 1200}}
RULE = ("actions map {save,query} -> random non-empty subsets of {a,r,w,s,x}; 1-4 role assignment calls "
        "(incl. reassignments, empty role strings, upper case) read back with get_auth_roles; 2-3 "
        "connections, anonymous or authenticated as one of 3 identities, each sending REQ and EVENT frames "
        "before and after authenticating; output validator = recipe.homeserver.whitelist_output_validator "
        "with a random whitelist in half of the runs; both back ends; non-trivial = some command was "
        "permitted and some command was refused for lack of a role; distinct = hash of (backend, actions, "
        "assigned roles, per-command permit pattern)")
COMPONENTS = {
    "real": ["auth.Authenticator.can_do / authenticate / parse_options", "BaseStorage.subscribe (query check)",
             "add_event save check on both back ends", "set_auth_roles / get_auth_roles (SQL table, LMDB service "
             "events)", "Subscription.run_query + BaseSubscription.notify with check_output",
             "recipe.homeserver.whitelist_output_validator"],
    "stub": ["websocket transport", "LMDB engine (fake)", "threads (actors)"],
}
ASSUMPTIONS = ["roles are those stored for the pubkey when the connection authenticated (the token is not "
               "refreshed afterwards); assignments happen before the connections start",
               "AUTH answers in this check are always valid; C15 covers invalid ones"]
SHRINK = [["clients"], ["clients", "*", "script"], ["assign"]]
URL = "ws://relay.example"


def gen(rng, knobs):
    backend = rng.choice(["sql", "lmdb"])
    alpha = "arwsx"
    # (an action configured with NO role - "" - means nobody may do it)
    actions = {"save": "".join(rng.sample(alpha, rng.choice([0, 1, 1, 2, 2, 3]))),
               "query": "".join(rng.sample(alpha, rng.choice([0, 1, 1, 2, 2, 3])))}
    assign = []
    for _ in range(rng.randint(1, 4)):
        k = rng.choice([0, 1, 3])
        roles = "".join(rng.sample(alpha, rng.randint(0, 3)))
        if rng.random() < 0.15:
            roles = roles.upper()
        assign.append([k, roles])
    h = histgen.Hist(rng, nauthors=3)
    pre = [h.regular() for _ in range(rng.randint(1, 4))]
    pool = [h.regular() for _ in range(8)] + [h.regular(kind=10002)]
    rng.shuffle(pool)
    whitelist = [evgen.AUTHORS[i].pub for i in rng.sample(range(3), rng.randint(0, 2))] if rng.random() < 0.5 else None
    clients = []
    n = 0
    for ci in range(rng.randint(2, 3)):
        script = []
        ident = rng.choice([None, 0, 1, 3])
        auth_at = rng.randint(0, 3) if ident is not None else None
        for step in range(rng.randint(3, 8)):
            if auth_at is not None and step == auth_at:
                script.append(["dyn", "auth", {"key": ident, "url": URL}])
                continue
            if rng.random() < 0.5:
                script.append(["send", json.dumps(["REQ", "q%d" % n, {"authors": [k.pub for k in evgen.KEYS]}])])
                n += 1
            elif pool:
                script.append(["send", json.dumps(["EVENT", pool.pop()])])
            if rng.random() < 0.3:
                script.append(["barrier"])
        clients.append({"script": script, "slow": rng.random() < 0.15})
    return {"backend": backend, "actions": actions, "assign": assign, "preload": pre, "whitelist": whitelist,
            "restart": rng.random() < 0.3, "clients": clients}


def sample(case):
    return {"backend": case["backend"], "actions": case["actions"], "assign": case["assign"],
            "whitelist": len(case["whitelist"]) if case["whitelist"] is not None else None,
            "clients": [[(i[0] if i[0] != "send" else json.loads(i[1])[0]) for i in c["script"]] for c in case["clients"]]}


def parse(text):
    try:
        return json.loads(text)
    except Exception:
        return None


def run(case, sim):
    backend = case["backend"]
    cfg = {"authentication": {"enabled": True, "actions": dict(case["actions"]), "relay_urls": [URL]},
           "service_privatekey": evgen.SERVICE_SK}
    if case.get("whitelist") is not None:
        cfg["output_validator"] = "nostr_relay.recipe.homeserver.whitelist_output_validator"
        cfg["pubkey_whitelist"] = list(case["whitelist"])
    w = relay.RelayWorld(sim, backend, case["clients"], cfg=cfg, preload=case.get("preload"))
    readback = []
    assigned = {}

    async def before(world):
        st = world.env.storage
        for k, roles in case["assign"]:
            pub = evgen.KEYS[k].pub
            sim.clock.mono += 1.0            # service events carry created_at = now
            try:
                await st.set_auth_roles(pub, roles)
                await sim.quiescent()
                got = await st.get_auth_roles(pub)
                readback.append([pub[:8], roles, sorted(got)])
                assigned[pub] = set(roles.lower())
            except Exception as e:
                readback.append([pub[:8], roles, "ERR %s: %s" % (type(e).__name__, e)])
        if case.get("restart"):
            # the relay is restarted: what was assigned last is what a fresh process reads back and enforces
            await sim.quiescent()
            await world.env.close()
            await world.env.open(create=False)
            await sim.quiescent()
            st = world.env.storage
            for pub, want in list(assigned.items()):
                try:
                    got = await st.get_auth_roles(pub)
                    readback.append([pub[:8], "".join(sorted(want)), sorted(got)])
                except Exception as e:
                    readback.append([pub[:8], "".join(sorted(want)), "ERR %s: %s" % (type(e).__name__, e)])
    w.before_clients = before
    w.run()
    viol = []
    probes = collections.Counter()
    for pub8, roles, got in readback:
        if isinstance(got, str) or set(got) != set(roles.lower()):
            viol.append({"cls": "roles-readback", "sig": "roles-readback|%s|%s" % (backend, "err" if isinstance(got, str) else "mismatch"),
                         "detail": {"set": roles, "got": got}})
    save_roles = set(case["actions"]["save"])
    query_roles = set(case["actions"]["query"])
    whitelist = case.get("whitelist")
    final = w.final["dump"]
    all_states = [d for _, d in w.env.states]
    pushed_any = collections.Counter()
    for c in w.clients:
        for s, t in c.transcript:
            m = parse(t)
            if isinstance(m, list) and len(m) == 3 and m[0] == "EVENT" and isinstance(m[2], dict):
                pushed_any[m[2].get("id")] += 1
    permitted = refused = 0
    for c in w.clients:
        tx = [(s, parse(t)) for s, t in c.transcript if not t.startswith("__CLOSE__")]
        notices = [(s, m[1]) for s, m in tx if isinstance(m, list) and len(m) == 2 and m[0] == "NOTICE"]
        oks = [(s, m) for s, m in tx if isinstance(m, list) and len(m) == 4 and m[0] == "OK"]
        eose = {m[1] for s, m in tx if isinstance(m, list) and len(m) == 2 and m[0] == "EOSE"}
        ev_by_sub = collections.defaultdict(list)
        for s, m in tx:
            if isinstance(m, list) and len(m) == 3 and m[0] == "EVENT":
                ev_by_sub[m[1]].append((s, m[2]))
        roles = {"a"}
        identity = None
        t_auth = None
        alive = w.final.get("alive", {}).get(c.idx, False)
        for fr in c.frames:
            m = parse(fr["text"])
            if not isinstance(m, list) or len(m) < 2:
                continue
            hi = fr["t_done"] if fr["t_done"] is not None else 10 ** 12
            my_notices = [txt for s, txt in notices if fr["t_deliver"] <= s <= hi]
            if m[0] == "AUTH":
                if my_notices:
                    viol.append({"cls": "valid-auth-refused", "sig": "valid-auth-refused|" + backend,
                                 "detail": {"notice": my_notices[:2]}})
                    continue
                identity = m[1]["pubkey"]
                roles = assigned.get(identity, {"a"})
                t_auth = hi
            elif m[0] == "REQ":
                allowed = bool(roles & query_roles)
                sid = m[1]
                restricted = any("restricted" in txt for txt in my_notices)
                if allowed:
                    permitted += 1
                    if restricted:
                        viol.append({"cls": "query-wrongly-refused", "sig": "query-wrongly-refused|%s" % backend,
                                     "detail": {"roles": sorted(roles), "query_roles": sorted(query_roles)}})
                    elif alive and sid not in eose:
                        viol.append({"cls": "query-not-served", "sig": "query-not-served|%s" % backend,
                                     "detail": {"sub": sid}})
                else:
                    refused += 1
                    if not restricted and alive:
                        viol.append({"cls": "query-not-refused", "sig": "query-not-refused|%s|%s" % (backend, "anon" if identity is None else "ident"),
                                     "detail": {"roles": sorted(roles), "query_roles": sorted(query_roles),
                                                "notices": my_notices[:2], "eose": sid in eose}})
                    if ev_by_sub.get(sid) or sid in w.final.get("registry", {}).get(c.idx, []):
                        viol.append({"cls": "unauthorized-read", "sig": "unauthorized-read|%s" % backend,
                                     "detail": {"roles": sorted(roles), "query_roles": sorted(query_roles),
                                                "events": len(ev_by_sub.get(sid, [])),
                                                "registered": sid in w.final.get("registry", {}).get(c.idx, [])}})
            elif m[0] == "EVENT" and isinstance(m[1], dict):
                allowed = bool(roles & save_roles)
                eid = m[1]["id"]
                mine = [k for s, k in oks if fr["t_deliver"] <= s <= hi]
                if not mine:
                    continue
                ok = mine[0]
                if allowed:
                    permitted += 1
                    if ok[2] is not True and "restricted" in str(ok[3]):
                        viol.append({"cls": "save-wrongly-refused", "sig": "save-wrongly-refused|%s" % backend,
                                     "detail": {"roles": sorted(roles), "save_roles": sorted(save_roles), "reason": ok[3]}})
                else:
                    refused += 1
                    others_ok = any(True for c2 in w.clients for s2, t2 in c2.transcript
                                    if (parse(t2) or [None])[0] == "OK" and parse(t2)[1] == eid and parse(t2)[2] is True and c2 is not c)
                    if ok[2] is True:
                        viol.append({"cls": "unauthorized-write-acked", "sig": "unauthorized-write-acked|%s|%s" % (backend, "anon" if identity is None else "ident"),
                                     "detail": {"roles": sorted(roles), "save_roles": sorted(save_roles)}})
                    elif "restricted" not in str(ok[3]) and "duplicate" not in str(ok[3]):
                        viol.append({"cls": "refusal-not-restricted", "sig": "refusal-not-restricted|%s" % backend,
                                     "detail": {"reason": ok[3]}})
                    if not others_ok and (eid in final or any(eid in d for d in all_states) or pushed_any[eid]):
                        viol.append({"cls": "unauthorized-write-trace", "sig": "unauthorized-write-trace|%s|%s" % (
                            backend, "stored" if eid in final else ("pushed" if pushed_any[eid] else "stored-then-gone")),
                                     "detail": {"roles": sorted(roles), "save_roles": sorted(save_roles)}})
        # output validator on everything sent to this connection
        if whitelist is not None:
            for sid, lst in ev_by_sub.items():
                for s, ev in lst:
                    ident_at = identity if (t_auth is not None and s > t_auth) else None
                    ok_out = ev.get("pubkey") in whitelist or ev.get("kind") == 10002 or \
                        (identity is not None and identity in whitelist)
                    strict = ev.get("pubkey") in whitelist or ev.get("kind") == 10002 or \
                        (ident_at is not None and ident_at in whitelist)
                    probes["output_checked"] += 1
                    if not ok_out:
                        stored_path = eid_is_stored_result(c, sid, s, tx)
                        viol.append({"cls": "output-validator-bypassed",
                                     "sig": "output-validator-bypassed|%s|%s" % (backend, "stored" if stored_path else "live"),
                                     "detail": {"event_pubkey": str(ev.get("pubkey"))[:8], "kind": ev.get("kind"),
                                                "identity": (identity or "anon")[:8]}})
                        break
    seen, v2 = set(), []
    for v in viol:
        if v["sig"] not in seen:
            seen.add(v["sig"])
            v2.append(v)
    probes["backend_" + backend] = 1
    probes["permitted"] = permitted
    probes["refused"] = refused
    return {"violations": v2, "nontrivial": permitted > 0 and refused > 0, "probes": dict(probes),
            "signature": qcommon.h16((backend, case["actions"], case["assign"], permitted, refused,
                                      [[i[0] for i in c["script"]] for c in case["clients"]]))}


def eid_is_stored_result(c, sid, seq, tx):
    """was this EVENT frame sent before the EOSE of its subscription (stored path)"""
    for s, m in tx:
        if isinstance(m, list) and len(m) == 2 and m[0] == "EOSE" and m[1] == sid:
            return seq < s
    return True
