"""
C13 -- subscription protocol: one EOSE per REQ, CLOSE and replacement end delivery, never silence,
subscription_limit respected.

Relay world: 1-3 connections running REQ / CLOSE / EVENT / disconnect scripts against the real
start_client loop; the scheduler interleaves frame deliveries with query tasks, sqlite / pool /
writer / validator completions and slow consumers.  The oracle is a per-(connection, sub id)
automaton over the transcript, evaluated at quiescence (bounded liveness: no REQ is still
unanswered when nothing can run any more).
"""
import collections
import json

from .. import histgen, model, qcommon, evgen
from ..worlds import relay

ID = "C13"
LEVEL = "exploration"
CHUNK = 40
CHUNK_DEADLINE = 600       # (long flavours: crowds, soaks, wide events; shared machines)
BUDGET = {"quick": {"runs": 2500, "wall": 150}, "thorough": {"runs": 100000, "wall": 1200}}
RULE = ("1-3 connections x scripts of 3-14 frames over REQ (valid, empty, partly and wholly invalid "
        "filter lists; fresh, reused, non-string and hostile ids), CLOSE (open / unknown id), EVENT, "
        "barrier, disconnect; subscription_limit 2-4; slow consumers; preloaded store of 0-8 events; both "
        "back ends; scheduler decides every interleaving; non-trivial = a CLOSE, replacement or refusal "
        "happened while the connection had an open subscription; distinct = hash of (backend, per-"
        "connection verb sequence, order of frame deliveries)")
COMPONENTS = {
    "real": ["web.start_client / send_subscriptions", "BaseStorage.subscribe/unsubscribe", "Subscription."
             "run_query (both back ends)", "NostrQuery", "asyncio tasks/queues on the simulated loop"],
    "stub": ["websocket transport (three callables)", "LMDB engine (fake)", "threads (actors)"],
}
ASSUMPTIONS = ["in the 10% of runs with injected SQL errors a stored query may end early: its EOSE is then not "
               "required to be complete (every other clause is still judged)",
               "frames failing the shape gate (not an array, <2 elements, unknown verb) are dropped by "
               "design and are not REQs", "'after CLOSE / after a REQ reusing the id' = once the relay has handled that "
               "command: from then on at most ONE more frame of the old subscription goes out (the one the "
               "sender task had already taken from the queue), nothing that was queued behind it, no event "
               "accepted later, nothing after the next quiescent point; after a replacement every further frame "
               "under the id matches the new REQ"]
SHRINK = [["clients"], ["clients", "*", "script"]]

BAD_FILTERS = [{"kinds": "x"}, {"ids": ["zz"]}, {"since": -5}, {"authors": [5]}, "str", 7, None, [], {"limit": -1},
               {"#e": [5]}]


def gen(rng, knobs):
    backend = rng.choice(["sql", "lmdb"])
    h = histgen.Hist(rng, nauthors=2)
    pre = [h.regular() for _ in range(rng.randint(0, 8))]
    limit = rng.choice([2, 3, 4])
    clients = []
    pool = [h.regular() for _ in range(6)]
    for ci in range(rng.randint(1, 3)):
        script = []
        ids = ["a%d" % ci, "b%d" % ci, "c%d" % ci, "d%d" % ci, "e%d" % ci]
        opened = []
        nfresh = 0
        for _ in range(rng.randint(3, 14)):
            c = rng.random()
            if c < 0.45:
                m = rng.random()
                if m < 0.6 or not opened:
                    sid = "%s.%d" % (rng.choice(ids), nfresh)
                    nfresh += 1
                elif m < 0.85:
                    sid = rng.choice(opened)          # replacement
                else:
                    sid = rng.choice([5, None, ["x"], {"a": 1}, 1.5, True, 'q"uote', "back\\slash", ""])
                k = rng.random()
                if k < 0.6:
                    fs = [histgen.wellformed_filter(rng, pre + pool) for _ in range(rng.choice([1, 1, 2]))]
                elif k < 0.7:
                    fs = []
                elif k < 0.85:
                    fs = [histgen.wellformed_filter(rng, pre + pool), rng.choice(BAD_FILTERS)]
                    rng.shuffle(fs)
                else:
                    fs = [rng.choice(BAD_FILTERS) for _ in range(rng.choice([1, 2]))]
                script.append(["send", json.dumps(["REQ", sid] + fs)])
                if isinstance(sid, str):
                    opened.append(sid)
            elif c < 0.6:
                sid = rng.choice(opened) if opened and rng.random() < 0.8 else rng.choice(["nope", None, 5, [], {}, True, ""])
                script.append(["send", json.dumps(["CLOSE", sid])])
            elif c < 0.85:
                script.append(["send", json.dumps(["EVENT", rng.choice(pool)])])
            elif c < 0.95:
                script.append(["barrier"])
            else:
                script.append(["send", rng.choice(['["REQ"]', "[]", "nonsense", '{"a":1}', '["PING","x"]'])])
        if rng.random() < 0.2:
            script.insert(rng.randint(1, len(script)), ["disconnect"])
        clients.append({"script": script, "slow": rng.random() < 0.25})
    if rng.random() < 0.06:
        # a large stored result being streamed to a slow reader while matching events are added and removed:
        # everything that was stored before the REQ and stays stored arrives before EOSE, once
        n = rng.randint(110, 230)
        pre = [h.regular(author=i % 2, kind=1, tags=[], created_at=histgen.T0 - 5000 + i) for i in range(n)]
        victim = pre[-1 - rng.randrange(3)]
        newer = [h.regular(author=0, kind=1, tags=[], created_at=histgen.T0 - 10 + i) for i in range(rng.randint(1, 3))]
        dele = h.deletion(author=[k.pub for k in evgen.AUTHORS].index(victim["pubkey"]), targets=[victim["id"]],
                          created_at=histgen.T0 - 1)
        writes = [["send", json.dumps(["EVENT", e])] for e in newer + [dele]]
        rng.shuffle(writes)
        clients = [{"script": [["send", json.dumps(["REQ", "big", {"kinds": [1]}])]], "slow": rng.random() < 0.8},
                   {"script": writes, "slow": False}]
        limit = 4
    message_timeout = 1800
    quiet = rng.random() < 0.08
    if quiet:
        # a peer that is quiet for almost the idle time-out (legally still connected) and then asks for something
        # sizeable; sometimes it had asked for something before, sometimes this is its first frame
        message_timeout = rng.choice([5, 30, 1800])
        pre = [h.regular(kind=1) for _ in range(rng.randint(10, 60))]
        gap = message_timeout - rng.choice([0.05, 0.3, 0.9, 0.9, 2.0])
        script = [["wait", gap], ["send", json.dumps(["REQ", "late", {"kinds": [1]}])]]
        if rng.random() < 0.5:
            script.insert(0, ["send", json.dumps(["REQ", "first", {"kinds": [1], "limit": 2}])])
        if rng.random() < 0.4:
            script += [["wait", rng.choice([0.5, 0.9]) * message_timeout], ["send", json.dumps(["REQ", "later", {"kinds": [1], "limit": 3}])]]
        clients = [{"script": script, "slow": rng.random() < 0.5}]
        if rng.random() < 0.4:
            clients.append({"script": [["send", json.dumps(["EVENT", h.regular(kind=1)])]], "slow": False})
        limit = 4
    crowd = not quiet and rng.random() < 0.02
    if crowd:
        # a long process lifetime: a crowd of connections, then some of them go on: CLOSE, REQ again, leave
        pre = [h.regular(kind=1) for _ in range(2)]
        clients = histgen.crowd(rng, h)
        for cl in rng.sample(clients, min(len(clients), 12)) + clients[:2]:
            sid = json.loads(cl["script"][0][1])[1]
            cl["script"] += [["barrier"], ["send", json.dumps(["CLOSE", sid])], ["send", json.dumps(["REQ", "again", {"kinds": [1]}])]]
            if rng.random() < 0.3:
                cl["script"].append(["disconnect"])
        limit = 4
    return {"backend": backend, "clients": clients, "preload": pre, "subscription_limit": limit,
            **({"step_cap": 600000} if crowd else {}), "message_timeout": message_timeout,
            "p_buffered": rng.choice([0.0, 0.0, 0.3, 0.8]),
            "faults": sorted(rng.sample(range(3, 90), rng.choice([1, 2]))) if (backend == "sql" and rng.random() < 0.2 and not quiet) else [],
            "storage_opts": histgen.pool_knob(rng, backend),
            "sched": {**histgen.stall_knob(rng, 0.6 if quiet else 0.15), "timer_near": rng.choice([0.3, 1.0, 3.0]), "client": rng.choice([0.5, 1.0, 3.0]), "sql": rng.choice([0.3, 1.0, 3.0]),
                      "pool": rng.choice([0.3, 1.0, 3.0]), "writer": rng.choice([0.2, 1.0, 3.0]),
                      "wsend": rng.choice([0.2, 1.0]), "ready": rng.choice([1.0, 4.0, 8.0])}}


def sample(case):
    return {"backend": case["backend"], "limit": case["subscription_limit"],
            "clients": [[(json.loads(i[1])[:2] if i[0] == "send" and i[1][:1] == "[" and len(i[1]) > 2 else i[0])
                         for i in c["script"]][:8] for c in case["clients"]]}


def parse(text):
    try:
        return json.loads(text)
    except Exception:
        return None


def check_client(c, world, case, ev_times, ev_done, submissions, quiet_points, viol, probes, stored_done=None, ev_objs=None):
    stored_done = stored_done or {}
    ev_objs = ev_objs or {}
    backend = case["backend"]
    limit = case["subscription_limit"]
    frames = c.frames
    tx = []
    for seq, text in c.transcript:
        if text.startswith("__CLOSE__"):
            tx.append((seq, ["__CLOSE__"]))
            continue
        m = parse(text)
        if isinstance(m, list) and m:
            tx.append((seq, m))
    t_end = getattr(c, "t_disconnect", 10 ** 12)
    string_ids = set()
    reqs = []
    for fr in frames:
        m = parse(fr["text"])
        if not (isinstance(m, list) and len(m) >= 2 and m[0] in ("REQ", "CLOSE", "EVENT", "AUTH")):
            continue
        fr["msg"] = m
        if m[0] == "REQ":
            reqs.append(fr)
            if isinstance(m[1], str):
                string_ids.add(m[1])
    # group by sub id (string ids); non-string ids are judged by floating EOSE/NOTICE frames
    by_id = collections.defaultdict(list)
    for fr in frames:
        m = fr.get("msg")
        if m and m[0] in ("REQ", "CLOSE") and isinstance(m[1], str):
            by_id[m[1]].append(fr)
    eose_by_id = collections.defaultdict(list)
    event_by_id = collections.defaultdict(list)
    frame_events = collections.defaultdict(list)
    notices = []
    for seq, m in tx:
        if m[0] == "EOSE" and len(m) > 1:
            eose_by_id[m[1] if isinstance(m[1], str) else repr(m[1])].append(seq)
        elif m[0] == "EVENT" and len(m) > 2 and isinstance(m[2], dict):
            event_by_id[m[1] if isinstance(m[1], str) else repr(m[1])].append((seq, m[2].get("id")))
            frame_events[m[1] if isinstance(m[1], str) else repr(m[1])].append((seq, m[2]))
        elif m[0] == "NOTICE":
            notices.append(seq)
    floating_eose = sorted(s for k, v in eose_by_id.items() if k not in string_ids for s in v)

    def notice_in(fr):
        hi = fr["t_done"] if fr["t_done"] is not None else 10 ** 12
        return [s for s in notices if fr["t_deliver"] <= s <= hi]

    alive_at_quiet = world.final.get("alive", {}).get(c.idx, False)
    # a connection the RELAY hung up on while the peer was still there, although the peer had not been quiet for
    # the idle time-out (and no engine fault was injected): nothing excuses what it leaves unanswered - for the
    # silence clause the connection counts as one that stayed
    t_close = min((s for s, t in c.transcript if t.startswith("__CLOSE__")), default=None)
    if (not alive_at_quiet and t_close is not None and t_close < getattr(c, "t_disconnect", 10 ** 12)
            and not case.get("faults")):
        # (quiet since the last frame the handler demonstrably took up - it came back for the next one; a frame
        #  that reached the socket just before the deadline may lose the race against the time-out and is not counted)
        seen = [f["mono_deliver"] for f in frames if f["t_done"] is not None] + [getattr(c, "first_recv_mono", 0.0)]
        idle = getattr(c, "closed_mono", 0.0) - max(seen)
        if idle < case.get("message_timeout", 1800) - 1.0:
            probes["relay_hung_up_early"] += 1
            alive_at_quiet = True
    in_flight = 1 if getattr(c, "slow", False) else 0
    for sid, frs in by_id.items():
        req_frs = [f for f in frs if f["msg"][0] == "REQ"]
        if not req_frs:
            # CLOSE of an id never opened: no EVENT/EOSE may carry it
            if eose_by_id.get(sid) or event_by_id.get(sid):
                viol.append({"cls": "frames-for-unknown-sub", "sig": "frames-for-unknown-sub|" + backend,
                             "detail": {"sub": sid}})
            continue
        first = req_frs[0]["t_deliver"]
        for seq in eose_by_id.get(sid, []) + [s for s, _ in event_by_id.get(sid, [])]:
            if seq < first:
                viol.append({"cls": "frames-before-req", "sig": "frames-before-req|" + backend,
                             "detail": {"sub": sid}})
                break
        # EOSE accounting: segment the timeline by REQ deliveries of this id
        for k, fr in enumerate(req_frs):
            lo = fr["t_deliver"]
            hi = req_frs[k + 1]["t_deliver"] if k + 1 < len(req_frs) else 10 ** 12
            eoses = [s for s in eose_by_id.get(sid, []) if lo <= s < hi]
            refused = bool(notice_in(fr))
            ended = [f for f in frs if f["msg"][0] == "CLOSE" and lo < f["t_deliver"] < hi]
            replaced = k + 1 < len(req_frs)
            cut = bool(ended) or replaced or not alive_at_quiet
            if ended or replaced or refused:
                probes["close_replace_refuse"] += 1
            # (a cancelled incarnation may still emit its EOSE after the replacing REQ arrived, so
            #  with id reuse only the total is bounded: at most one EOSE per REQ of that id)
            if k == 0 and len(eose_by_id.get(sid, [])) > len(req_frs):
                viol.append({"cls": "double-eose", "sig": "double-eose|%s" % backend,
                             "detail": {"sub": sid, "eose": len(eose_by_id.get(sid, [])), "reqs": len(req_frs)}})
            if refused and eoses and len(fr["msg"]) > 2:
                probes["refused_and_eose"] += 1
            if not refused and not eoses and not cut:
                viol.append({"cls": "silent-req", "sig": "silent-req|%s|filters=%s" % (
                    backend, "none" if len(fr["msg"]) == 2 else ("invalid" if not any(
                        isinstance(f, dict) and model.wellformed_filter(f) for f in fr["msg"][2:]) else "valid")),
                             "detail": {"sub": sid, "req": fr["msg"][:4], "alive": alive_at_quiet}})
            # events accepted after the end of this incarnation must not appear under it
            end_t = None
            if ended:
                e0 = ended[0]
                end_t = e0["t_done"]
            if end_t is not None:
                nxt_req = hi
                late = [seq for seq, eid in event_by_id.get(sid, []) if end_t < seq < nxt_req]
                if late:
                    probes["event_frames_sent_after_close_handled"] += len(late)
                if len(late) > in_flight:
                    # the one frame the sender had already taken from the queue may still go out (only a slow
                    # reader keeps the sender waiting inside a send); what was queued behind it for the closed
                    # subscription must not
                    viol.append({"cls": "delivery-after-close", "sig": "delivery-after-close|%s|backlog" % backend,
                                 "detail": {"sub": sid, "frames_after_close_was_handled": len(late)}})
                for seq, eid in event_by_id.get(sid, []):
                    if end_t < seq < nxt_req:
                        t_sub = ev_times.get(eid)
                        if t_sub is not None and t_sub > end_t:
                            viol.append({"cls": "delivery-after-close", "sig": "delivery-after-close|%s|new-event" % backend,
                                         "detail": {"sub": sid, "event": (eid or "")[:8]}})
                            break
                        qp = [q for q in quiet_points if end_t < q < seq]
                        if qp:
                            viol.append({"cls": "delivery-after-close", "sig": "delivery-after-close|%s|after-quiescence" % backend,
                                         "detail": {"sub": sid, "event": (eid or "")[:8]}})
                            break
            # stored results come before EOSE: an event sent after EOSE must be a live one
            if eoses and len(req_frs) == 1:
                for seq, eid in event_by_id.get(sid, []):
                    if eoses[0] < seq < hi:
                        t_sub = ev_done.get(eid, 0 if eid not in ev_times else 10 ** 12)
                        if t_sub < lo and submissions.get(eid, 0) <= 1:   # resubmissions: C06
                            viol.append({"cls": "stored-after-eose", "sig": "stored-after-eose|%s" % backend,
                                         "detail": {"sub": sid, "event": (eid or "")[:8],
                                                    "preloaded": t_sub is None}})
                            break
    # what was queued for a replaced subscription is not sent under the id once the replacing REQ has been
    # handled: from then on the frames carrying the id answer the new REQ and match its filters (one frame
    # that the sender had already taken from the queue may still go out)
    for sid, frs in by_id.items():
        req_frs = [f for f in frs if f["msg"][0] == "REQ"]
        for k in range(1, len(req_frs)):
            fr = req_frs[k]
            if fr["t_done"] is None:
                continue
            hi = req_frs[k + 1]["t_deliver"] if k + 1 < len(req_frs) else 10 ** 12
            fl = [f for f in fr["msg"][2:] if isinstance(f, dict)]
            alien = [E.get("id", "")[:8] for seq, E in frame_events.get(sid, [])
                     if fr["t_done"] < seq < hi and model.wellformed(E)
                     and not any(model.matches(E, f, "inclusive", bare_as_empty=True) for f in fl)]
            if len(alien) > in_flight:
                viol.append({"cls": "leftovers-of-replaced-subscription",
                             "sig": "leftovers-of-replaced-subscription|%s" % backend,
                             "detail": {"sub": sid, "current_req": fr["msg"][:4], "events": alien[:5]}})
                break
    # a live push under an id must match the subscription that currently holds the id: an event
    # submitted after a REQ for that id had been fully handled may only be pushed if it matches a
    # filter of that REQ (a replaced subscription must not keep delivering under the id)
    for sid, frs in by_id.items():
        req_frs = [f for f in frs if f["msg"][0] == "REQ"]
        if len(req_frs) < 2:
            continue
        for seq, eid in event_by_id.get(sid, []):
            t_e = ev_times.get(eid)
            E = ev_objs.get(eid)
            if t_e is None or E is None:
                continue
            cur = [f for f in req_frs if f["t_done"] is not None and f["t_done"] < t_e]
            if not cur or cur[-1] is req_frs[0]:
                continue
            later = [f for f in req_frs if f["t_deliver"] > cur[-1]["t_deliver"]]
            if later:
                continue        # yet another REQ for the id arrived meanwhile: ambiguous
            fl = [f for f in cur[-1]["msg"][2:] if isinstance(f, dict)]
            if not any(model.matches(E, f, "inclusive", bare_as_empty=True) for f in fl):
                viol.append({"cls": "push-for-replaced-subscription", "sig": "push-for-replaced-subscription|%s|%s" % (
                    backend, "new-filters-invalid" if not any(model.wellformed_filter(f) for f in fl) else "no-match"),
                             "detail": {"sub": sid, "event": (eid or "")[:8], "current_req": cur[-1]["msg"][:4]}})
                break
    # every EOSE is truthful: it ends the stored events of SOME incarnation of that id, i.e. for at
    # least one REQ of the id delivered before it, every event that was durably stored before that
    # REQ arrived (and stayed stored) and matches one of its filters has been sent under the id by
    # then.  (An EOSE emitted for a cancelled query that delivered only part of its results is not.)
    for sid, frs in by_id.items():
        req_frs = [f for f in frs if f["msg"][0] == "REQ"]
        for s_eose in eose_by_id.get(sid, []):
            cands = [f for f in req_frs if f["t_deliver"] < s_eose]
            if not cands:
                continue
            truthful = False
            worst = None
            for fr in cands:
                filters = [f for f in fr["msg"][2:] if isinstance(f, dict) and model.wellformed_filter(f)]
                states = world.env.states_between(fr["t_deliver"], s_eose)
                if not states:
                    truthful = True
                    break
                base = states[0]
                owed = [i for i, e in base.items()
                        if all(i in d for d in states)
                        and stored_done.get(i, 0) < fr["t_deliver"]
                        and any(model.matches(e, f, "strict") for f in filters)
                        and "kind" in e and not model.is_ephemeral(e["kind"])]
                sent = {eid for seq, eid in event_by_id.get(sid, []) if fr["t_deliver"] < seq < s_eose}
                missing = [i for i in owed if i not in sent]
                if len(cands) == 1 and len(filters) == 1:
                    # "exactly once": an event that was stored before the REQ cannot also be a live push
                    cnt = collections.Counter(eid for seq, eid in event_by_id.get(sid, []) if fr["t_deliver"] < seq < s_eose)
                    twice = [i for i in owed if cnt[i] > 1]
                    if twice:
                        viol.append({"cls": "stored-event-twice", "sig": "stored-event-twice|%s" % backend,
                                     "detail": {"sub": sid, "event": twice[0][:8], "times": cnt[twice[0]], "owed": len(owed)}})
                if any("limit" in f for f in filters):
                    missing = []
                if not missing:
                    truthful = True
                    break
                worst = (fr["msg"][:3], missing[:3], len(owed))
            if not truthful and not case.get("faults"):
                viol.append({"cls": "eose-before-stored-events", "sig": "eose-before-stored-events|%s|reqs=%d" % (
                    backend, min(len(req_frs), 2)),
                             "detail": {"sub": sid, "req": worst[0], "owed": worst[2],
                                        "missing": [m[:8] for m in worst[1]]}})
                break
    # non-string ids: each such REQ needs a NOTICE in its interval or a floating EOSE after it
    used = set()
    last_of = {}
    for fr in reqs:
        if not isinstance(fr["msg"][1], str):
            last_of[json.dumps(fr["msg"][1], sort_keys=True)] = fr     # earlier ones were replaced
    for fr in reqs:
        m = fr["msg"]
        if isinstance(m[1], str) or last_of.get(json.dumps(m[1], sort_keys=True)) is not fr:
            continue
        probes["nonstring_id_reqs"] += 1
        if notice_in(fr):
            continue
        closed_later = any(f2.get("msg") and f2["msg"][0] == "CLOSE" and f2["i"] > fr["i"] and
                           (f2["msg"][1] == m[1] or str(f2["msg"][1]) == str(m[1])) for f2 in frames)
        if closed_later:
            continue          # closed (possibly before its EOSE): at most one EOSE is owed
        cand = [s for s in floating_eose if s >= fr["t_deliver"] and s not in used]
        if cand:
            used.add(cand[0])
        elif alive_at_quiet:
            viol.append({"cls": "silent-req", "sig": "silent-req|%s|nonstring-id" % backend,
                         "detail": {"req": m[:3]}})
    # subscription_limit and non-interference of a REQ with the connection's other subscriptions
    for fr in reqs:
        before = set(fr.get("reg_before") or [])
        after = fr.get("reg_after")
        if after is None:
            continue
        after = set(after)
        sid = fr["msg"][1] if isinstance(fr["msg"][1], str) else None
        lost = before - after - ({sid} if sid is not None else set())
        if sid is None:
            lost = set() if len(before - after) <= 1 else lost
        if lost:
            viol.append({"cls": "req-dropped-other-subs", "sig": "req-dropped-other-subs|%s" % backend,
                         "detail": {"req": fr["msg"][:2], "lost": sorted(lost)}})
        if len(after) > limit:
            viol.append({"cls": "limit-exceeded", "sig": "limit-exceeded|%s" % backend,
                         "detail": {"limit": limit, "open": sorted(after)}})
    # a CLOSE ends at most the subscription it names
    for fr in frames:
        m = fr.get("msg")
        if not m or m[0] != "CLOSE" or fr.get("reg_after") is None:
            continue
        before, after = set(fr.get("reg_before") or []), set(fr["reg_after"])
        lost = before - after
        named = {m[1]} if isinstance(m[1], str) else set()
        if (isinstance(m[1], str) and lost - named) or (not isinstance(m[1], str) and len(lost) > 1):
            viol.append({"cls": "close-dropped-other-subs", "sig": "close-dropped-other-subs|%s|%s" % (
                backend, "string-id" if isinstance(m[1], str) else "nonstring-id"),
                         "detail": {"close": m[:2], "lost": sorted(lost)}})


def run(case, sim):
    backend = case["backend"]
    w = relay.RelayWorld(sim, backend, case["clients"], cfg={"subscription_limit": case["subscription_limit"]},
                         storage_opts=case.get("storage_opts"), message_timeout=case.get("message_timeout", 1800),
                         preload=case.get("preload"), p_buffered=case.get("p_buffered", 0.0))
    viol = []
    probes = collections.Counter()
    quiet_points = []
    over_limit = []
    # registry snapshots around every frame; quiet points at barriers
    for c in w.clients:
        orig_fire = c.fire
        orig_recv = c.ws_recv

        def fire(c=c, orig_fire=orig_fire):
            it = c.script[c.pos]
            if it[0] == "barrier":
                quiet_points.append(sim.stamp())
            orig_fire()
        c.fire = fire

    def hook():
        for idx, subs in w.registry().items():
            if len(subs) > case["subscription_limit"] and not over_limit:
                over_limit.append((idx, list(subs)))
    w.registry_hook = hook

    async def arm(world):
        for n in case.get("faults", []):
            sim.sql.global_faults[sim.sql.call_no + n] = "disk I/O error"
    w.before_clients = arm
    w.run()
    # submission times of every event id (first delivery of an EVENT command carrying it)
    ev_times = {}
    submissions = collections.Counter({e["id"]: 1 for e in case.get("preload", [])})
    ev_objs = {}
    ev_done = {}      # when the first EVENT command carrying the id had been fully handled
    for c in w.clients:
        for fr in c.frames:
            m = parse(fr["text"])
            if isinstance(m, list) and len(m) >= 2 and m[0] == "EVENT" and isinstance(m[1], dict):
                i = m[1].get("id")
                if i is not None:
                    submissions[i] += 1
                    if model.wellformed(m[1]):
                        ev_objs[i] = m[1]
                if i is not None and (i not in ev_times or fr["t_deliver"] < ev_times[i]):
                    ev_times[i] = fr["t_deliver"]
                    ev_done[i] = fr["t_done"] if fr["t_done"] is not None else 10 ** 12
    for c in w.clients:
        check_client(c, w, case, ev_times, ev_done, submissions, quiet_points, viol, probes, stored_done=ev_done, ev_objs=ev_objs)
        if not c.finished:
            viol.append({"cls": "handler-stuck", "sig": "handler-stuck|" + backend, "detail": {"client": c.idx}})
    if over_limit:
        viol.append({"cls": "limit-exceeded", "sig": "limit-exceeded|%s" % backend,
                     "detail": {"client": over_limit[0][0], "open": over_limit[0][1],
                                "limit": case["subscription_limit"]}})
    if w.final.get("stuck_in_handler"):
        probes["handler_busy_at_quiescence"] += 1
    seen, v2 = set(), []
    for v in viol:
        if v["sig"] not in seen:
            seen.add(v["sig"])
            v2.append(v)
    probes["backend_" + backend] = 1
    order = [(c.idx, f["i"]) for c in w.clients for f in c.frames]
    deliveries = sorted((f["t_deliver"], c.idx) for c in w.clients for f in c.frames)
    verbs = [[(parse(i[1]) or ["?"])[0] if i[0] == "send" and isinstance(parse(i[1]), list) and parse(i[1])
              else i[0] for i in c["script"]] for c in case["clients"]]
    return {"violations": v2, "nontrivial": probes["close_replace_refuse"] > 0, "probes": dict(probes),
            "signature": qcommon.h16((backend, verbs, [d[1] for d in deliveries]))}
