"""
C17 -- garbage collection removes expired and ephemeral events and nothing else.

Store world, both back ends, virtual clock: stores mixing regular, boundary-kind, expiring and
non-expiring events; GC passes at virtual time T (the clock is advanced by the history).
"""
import hashlib

from .. import histgen, model, oracles
from ..worlds import store

ID = "C17"
LEVEL = "exploration"
CHUNK = 60
BUDGET = {"quick": {"runs": 4000, "wall": 120}, "thorough": {"runs": 200000, "wall": 1200}}
RULE = ("stores of 3-16 events: kinds {1,7,19999,20000,25000,29999,30000}, expiration values "
        "{T-1,T,T+1,T+86400,10^10,'999',malformed,two tags,none} relative to the GC time T, 1-3 GC "
        "passes with clock advances in between, probes for ephemeral kinds after a pass, both back "
        "ends; non-trivial = a pass had at least one must-remove and one must-keep event with an "
        "expiration tag; distinct = hash of (backend, sequence of (kind, expiration class))")
COMPONENTS = {
    "real": ["db.QueryGarbageCollector", "kv.KVGarbageCollector", "kv.WriterThread 'del' tasks",
             "BaseGarbageCollector.run_once", "time.time() seam in db.py / kv.py"],
    "stub": ["LMDB engine (fake)", "threads (actors)", "wall clock (virtual)"],
}
ASSUMPTIONS = ["well-formed expiration = canonical ASCII decimal numeral without leading zeros",
               "malformed or repeated expiration tags may be collected or kept",
               "an expiration equal to T (same second) may go either way"]
SHRINK = [["ops"]]


def gen(rng, knobs):
    backend = rng.choice(["sql", "lmdb"])
    h = histgen.Hist(rng, nauthors=2)
    adv1 = rng.choice([0, 1, 100, 5000, 86400])
    T = histgen.T0 + adv1
    vals = [str(T - 1), str(T - 1), str(T), str(T + 1), str(T + 1), str(T + 86400), "10000000000", "999",
            str(T - 1000), "", "12x", " " + str(T - 5), "1e9", "-5", "0" + str(T + 50), "٣٣٣", "TWO", "NONE",
            "NONE", "99999999999999999999", str(T + 7), "9", "1" + "0" * 9, "2000000000", "5" * 9, "5" * 10]
    n = rng.randint(3, 16)
    for _ in range(n):
        c = rng.random()
        if c < 0.2:
            ev = h.regular(kind=rng.choice([19999, 20000, 25000, 29999, 30000, 20000, 29999]), tags=[])
            h.add(ev)
        else:
            v = rng.choice(vals)
            if v == "NONE":
                h.add(h.regular())
            elif v == "TWO":
                h.add(h.regular(tags=[["expiration", str(T - 1)], ["expiration", str(T + 500)]]))
            else:
                h.add(h.expiring(v, kind=rng.choice([1, 1, 7, 30000])))
    h.ops.append(["advance", adv1])
    h.ops.append(["gc"])
    for k in (20000, 29999, 25000):
        h.ops.append(["query", [{"kinds": [k]}]])
    if rng.random() < 0.5:
        for _ in range(rng.randint(1, 4)):
            v = rng.choice(vals[:8])
            h.add(h.expiring(v) if v not in ("NONE", "TWO") else h.regular())
        h.ops.append(["advance", rng.choice([0, 1, 2, 3600])])
        h.ops.append(["gc"])
    return {"backend": backend, "ops": h.ops}


def sample(case):
    return {"backend": case["backend"],
            "ops": [oracles.brief(o[1]) if o[0] == "add" else o for o in case["ops"]][:14]}


def expclass(x, T):
    exps = [t[1] if len(t) > 1 else None for t in x["tags"] if t and t[0] == "expiration"]
    if model.is_ephemeral(x["kind"]):
        return "ephemeral:%d" % x["kind"]
    if not exps:
        return "none" if x["kind"] not in (19999, 30000) else "none:%d" % x["kind"]
    if len(exps) > 1:
        return "several"
    v = model.canon_expiration(exps[0])
    if v is None:
        return "malformed"
    d = len(exps[0])
    rel = "past" if v < int(T) else ("now" if v == int(T) else "future")
    return "%s/%ddigits" % (rel, d)


def check(obs, backend):
    viol = []
    nontrivial = False
    passed = False
    for o in obs:
        kind = o["op"][0]
        if kind == "gc" and "post" in o:
            pre, post, T = o["pre"], o["post"], o["T"]
            must, may = oracles.gc_sets(pre, T)
            removed = set(pre) - set(post)
            keepers = [i for i in pre if i not in must and i not in may
                       and any(t and t[0] == "expiration" for t in pre[i]["tags"])]
            if must and keepers:
                nontrivial = True
            if o["res"][0] != "ok":
                viol.append({"cls": "gc-error", "sig": "gc-error|%s|%s" % (backend, o["res"][1]),
                             "detail": {"res": o["res"]}})
            for i in sorted(must & set(post)):
                viol.append({"cls": "not-collected", "sig": "not-collected|%s|%s" % (backend, expclass(pre[i], T)),
                             "detail": {"T": int(T), "event": oracles.brief(pre[i])}})
            for i in sorted(removed - must - may):
                viol.append({"cls": "wrongly-collected",
                             "sig": "wrongly-collected|%s|%s" % (backend, expclass(pre[i], T)),
                             "detail": {"T": int(T), "event": oracles.brief(pre[i])}})
            if set(post) - set(pre):
                viol.append({"cls": "gc-added", "sig": "gc-added|" + backend, "detail": {}})
            passed = True
        elif kind == "query" and passed and o["res"][0] == "ok":
            for e in o["res"][1]:
                if model.is_ephemeral(e["kind"]):
                    viol.append({"cls": "ephemeral-queryable", "sig": "ephemeral-queryable|%s" % backend,
                                 "detail": {"event": oracles.brief(e)}})
        elif kind == "add":
            passed = False if model.is_ephemeral(o["op"][1]["kind"]) else passed
    return viol, nontrivial


def run(case, sim):
    w, obs = store.run_store(sim, case["backend"], case["ops"])
    viol, nontrivial = check(obs, case["backend"])
    seen, v2 = set(), []
    for v in viol:
        if v["sig"] not in seen:
            seen.add(v["sig"])
            v2.append(v)
    T = histgen.T0
    shape = [(o[1]["kind"], [t[1] for t in o[1]["tags"] if t[0] == "expiration"]) if o[0] == "add" else o[0]
             for o in case["ops"]]
    return {"violations": v2, "nontrivial": nontrivial,
            "probes": {"backend_" + case["backend"]: 1, "gc_passes": sum(1 for o in obs if o["op"][0] == "gc"),
                       "discriminating_pass": int(nontrivial)},
            "signature": hashlib.sha256(repr((case["backend"], shape)).encode()).hexdigest()[:16]}
