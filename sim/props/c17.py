"""
C17 -- garbage collection removes expired and ephemeral events and nothing else.

Store world, both back ends, virtual clock: stores mixing regular, boundary-kind, expiring and
non-expiring events; GC passes at virtual time T (the clock is advanced by the history).
"""
import hashlib

from .. import histgen, model, oracles
from ..worlds import store

ID = "C17"
LEVEL = "exploration"
CHUNK = 60
BUDGET = {"quick": {"runs": 4000, "wall": 120}, "thorough": {"runs": 200000, "wall": 1200}}
RULE = ("stores of 3-16 events: kinds {1,7,19999,20000,25000,29999,30000}, expiration values "
        "{T-1,T,T+1,T+86400,10^10,'999',malformed,two tags,none} relative to the GC time T, 1-3 GC "
        "passes with clock advances in between, probes for ephemeral kinds after a pass, both back "
        "ends; non-trivial = a pass had at least one must-remove and one must-keep event with an "
        "expiration tag; distinct = hash of (backend, sequence of (kind, expiration class))")
COMPONENTS = {
    "real": ["db.QueryGarbageCollector", "kv.KVGarbageCollector", "kv.WriterThread 'del' tasks",
             "BaseGarbageCollector.run_once", "time.time() seam in db.py / kv.py"],
    "stub": ["LMDB engine (fake)", "threads (actors)", "wall clock (virtual)"],
}
ASSUMPTIONS = ["well-formed expiration = canonical ASCII decimal numeral without leading zeros",
               "a value that some reasonable parser still reads as a number (leading zeros, sign, blanks, float "
               "syntax, non-ASCII digits) may be collected or kept; a value that is no number at all ('', '12x', "
               "'soon') makes the event one of the 'other events': it stays",
               "several expiration tags: decided when they all agree, free otherwise",
               "an expiration equal to T (same second) may go either way"]
SHRINK = [["ops"], ["clients", "*", "script"]]


def gen_relay(rng):
    """relay mode: the collector runs as the real periodic task (virtual timer), events arrive over
    websocket connections, a live subscriber watches ephemeral kinds"""
    import json
    backend = rng.choice(["sql", "lmdb"])
    h = histgen.Hist(rng, nauthors=2)
    interval = rng.choice([60, 300])
    T0 = histgen.T0
    evs = []
    for _ in range(rng.randint(3, 10)):
        c = rng.random()
        if c < 0.35:
            evs.append(h.ephemeral())
        elif c < 0.8:
            v = rng.choice([T0 - 5, T0 + interval // 2, T0 + interval - 1, T0 + interval + 1, T0 + 3 * interval,
                            T0 + 10 * interval, 999, 10 ** 10, "soon", "12x", ""])
            evs.append(h.expiring(str(v)))
        else:
            evs.append(h.regular())
    half = max(1, len(evs) // 2)
    racing = rng.random() < 0.35
    if racing:
        # a replaceable address whose stored version expires at the first pass, and its successor WITHOUT an
        # expiration arriving at the very instant that pass runs: whatever the pass selected before, the
        # successor is not one of the expired events
        from .. import evgen
        a = rng.choice(h.authors)
        k = rng.choice([10002, 30023, 0])
        dt = [["d", "x"]] if k == 30023 else []
        v1 = evgen.make(a, kind=k, created_at=T0 - 20, tags=dt + [["expiration", str(T0 + interval // 2)], ["t", "old"]], content="v1")
        v2 = evgen.make(a, kind=k, created_at=T0 - 10, tags=dt + [["t", "new"]], content="v2")
        first, second = evs[:half] + [v1], [v2] + evs[half:]     # v1 stored last before the pass (the newest row)
    else:
        first, second = evs[:half], evs[half:]
    sub = [["send", json.dumps(["REQ", "live", {"kinds": [20000, 25000, 29999]}])], ["barrier"]]
    pub = [["barrier"]] + [["send", json.dumps(["EVENT", e])] for e in first] + \
          [["wait", interval * (1 if racing else rng.choice([1, 2])) + (0 if racing else 5)]] + \
          [["send", json.dumps(["EVENT", e])] for e in second] + \
          [["wait", interval + 5], ["send", json.dumps(["REQ", "after", {"kinds": [20000, 25000, 29999]}])],
           ["send", json.dumps(["REQ", "all", {"since": 1}])]]
    # one engine error somewhere in the run (SQL): if it lands in a collection pass, that pass fails - the
    # collector must carry on at the next interval
    fault = rng.randint(3, 160) if backend == "sql" and rng.random() < 0.4 else None
    if fault is not None and rng.random() < 0.5:
        pub.insert(len(pub) - 2, ["wait", interval + 5])       # room for one more pass
    return {"mode": "relay", "backend": backend, "interval": interval, "fault": fault,
            "sched": histgen.stall_knob(rng, p=0.7 if racing else 0.15),
            "clients": [{"script": sub}, {"script": pub}]}


def run_relay(case, sim):
    import json
    import collections
    from ..worlds import relay
    backend = case["backend"]
    w = relay.RelayWorld(sim, backend, case["clients"], gc_interval=case["interval"], message_timeout=10 ** 6)
    spare = 0
    if case.get("fault") is not None:
        spare = 1           # one pass may have been the one that failed

        async def arm(world):
            sim.sql.global_faults[sim.sql.call_no + case["fault"]] = "disk I/O error"
        w.before_clients = arm
    w.run()
    viol = []
    probes = collections.Counter()
    submitted = []
    pub = w.clients[1]
    oks = {}
    for s, t in pub.transcript:
        try:
            m = json.loads(t)
        except Exception:
            continue
        if isinstance(m, list) and len(m) == 4 and m[0] == "OK":
            oks[m[1]] = m[2]
    for fr in pub.frames:
        m = json.loads(fr["text"])
        if m[0] == "EVENT":
            submitted.append((m[1], fr["wall_deliver"], fr["t_deliver"]))
    live = collections.Counter()
    for s, t in w.clients[0].transcript:
        try:
            m = json.loads(t)
        except Exception:
            continue
        if isinstance(m, list) and len(m) == 3 and m[0] == "EVENT":
            live[m[2]["id"]] += 1
    after = []
    eose_after = False
    for s, t in pub.transcript:
        try:
            m = json.loads(t)
        except Exception:
            continue
        if isinstance(m, list) and len(m) == 3 and m[0] == "EVENT" and m[1] == "after":
            after.append(m[2])
        if m == ["EOSE", "after"]:
            eose_after = True
    final = w.final["dump"]
    t_end = w.env.sim.clock.wall()
    # collector passes happened at EPOCH + k * interval
    interval = case["interval"]
    last_pass = histgen.T0 + int((t_end - histgen.T0) // interval) * interval
    if last_pass > histgen.T0:
        probes["gc_passes_seen"] = int((t_end - histgen.T0) // interval)
    t_req_after = None
    for fr in pub.frames:
        if fr["text"].startswith('["REQ", "after"'):
            t_req_after = fr["wall_deliver"]
    for ev, t_sub, _ in submitted:
        if oks.get(ev["id"]) is not True:
            continue
        if model.is_ephemeral(ev["kind"]):
            probes["ephemeral_accepted"] += 1
            if live[ev["id"]] != 1 and w.final.get("alive", {}).get(0):
                viol.append({"cls": "ephemeral-not-delivered-live", "sig": "ephemeral-not-delivered-live|%s|n=%d" % (backend, min(live[ev["id"]], 2)),
                             "detail": {"event": oracles.brief(ev), "pushes": live[ev["id"]]}})
            # a pass ran between its submission and the later REQ?
            if t_req_after is not None:
                passes_between = int((t_req_after - histgen.T0) // interval) - int((t_sub - histgen.T0) // interval) > spare
                if passes_between and any(a["id"] == ev["id"] for a in after):
                    viol.append({"cls": "ephemeral-queryable-after-pass", "sig": "ephemeral-queryable-after-pass|%s" % backend,
                                 "detail": {"event": oracles.brief(ev)}})
            continue
        exps = [t[1] for t in ev["tags"] if t[0] == "expiration"]
        if len(exps) == 1 and model.canon_expiration(exps[0]) is not None:
            v = model.canon_expiration(exps[0])
            # passes that ran while the event was stored: at times p in (t_sub, t_end], p = T0 + k*interval
            k0 = int((t_sub - histgen.T0) // interval) + 1
            k1 = int((t_end - histgen.T0) // interval)
            pass_times = [histgen.T0 + k * interval for k in range(k0, k1 + 1)]
            if sum(1 for p in pass_times if v < p - 1) > spare and ev["id"] in final:
                viol.append({"cls": "expired-not-collected", "sig": "expired-not-collected|%s|%ddigits" % (backend, len(exps[0])),
                             "detail": {"event": oracles.brief(ev), "passes": pass_times[:4]}})
            if all(v > p + 1 for p in pass_times) and ev["id"] not in final:
                viol.append({"cls": "unexpired-collected", "sig": "unexpired-collected|%s|%ddigits" % (backend, len(exps[0])),
                             "detail": {"event": oracles.brief(ev), "passes": pass_times[:4], "t_end": t_end}})
        elif not exps and ev["id"] not in final:
            viol.append({"cls": "plain-event-collected", "sig": "plain-event-collected|" + backend,
                         "detail": {"event": oracles.brief(ev)}})
        elif exps and all(oracles.expiration_verdict(x, 0) == "keep" for x in exps) and ev["id"] not in final:
            viol.append({"cls": "not-a-number-expiration-collected", "sig": "not-a-number-expiration-collected|" + backend,
                         "detail": {"event": oracles.brief(ev)}})
    if not eose_after and w.final.get("alive", {}).get(1):
        probes["no_eose_after"] += 1
    probes["mode_relay"] = 1
    probes["backend_" + backend] = 1
    seen, v2 = set(), []
    for v in viol:
        if v["sig"] not in seen:
            seen.add(v["sig"])
            v2.append(v)
    return {"violations": v2, "nontrivial": probes["gc_passes_seen"] > 0 and probes["ephemeral_accepted"] > 0,
            "probes": dict(probes),
            "signature": hashlib.sha256(repr((backend, [(e["kind"], [t[1] for t in e["tags"] if t[0] == "expiration"]) for e, _, _ in submitted], case["interval"])).encode()).hexdigest()[:16]}


def gen(rng, knobs):
    if rng.random() < 0.3:
        return gen_relay(rng)
    backend = rng.choice(["sql", "lmdb"])
    h = histgen.Hist(rng, nauthors=2)
    adv1 = rng.choice([0, 1, 100, 5000, 86400])
    T = histgen.T0 + adv1
    vals = [str(T - 1), str(T - 1), str(T), str(T + 1), str(T + 1), str(T + 86400), "10000000000", "999",
            str(T - 1000), "", "12x", " " + str(T - 5), "1e9", "-5", "0" + str(T + 50), "٣٣٣", "TWO", "NONE",
            "NONE", "99999999999999999999", str(T + 7), "9", "1" + "0" * 9, "2000000000", "5" * 9, "5" * 10]
    n = rng.randint(3, 16)
    for _ in range(n):
        c = rng.random()
        if c < 0.2:
            ev = h.regular(kind=rng.choice([19999, 20000, 25000, 29999, 30000, 20000, 29999]), tags=[])
            h.add(ev)
        else:
            v = rng.choice(vals)
            if v == "NONE":
                h.add(h.regular())
            elif v == "TWO":
                h.add(h.regular(tags=[["expiration", str(T - 1)], ["expiration", str(T + 500)]]))
            else:
                h.add(h.expiring(v, kind=rng.choice([1, 1, 7, 30000])))
        if rng.random() < 0.3:
            # decoys: timestamp-looking values under other tag names, near-miss tag names; the event
            # is re-made because tags are signed
            ev = h.events.pop()
            assert h.ops.pop()[1] is ev
            extra = [rng.choice([["t", str(T - 1000)], ["d", str(T - 5)], ["t", "999"], ["r", "1600000000"],
                                 ["expiration_", str(T - 1)], ["Expiration", str(T - 1)], ["x", str(T - 1)],
                                 ["t", "expiration"], [str(T - 1), "expiration"], ["expiratio", "5"],
                                 ["e", str(T - 2)], ["p", "1"], ["g", str(T - 1), "expiration"]])
                     for _ in range(rng.choice([1, 1, 2]))]
            tags = ev["tags"] + extra if rng.random() < 0.5 else extra + ev["tags"]
            h.add(h.regular(author=evgen_author(ev), kind=ev["kind"], tags=tags, created_at=ev["created_at"],
                            content=ev["content"]))
    h.ops.append(["advance", adv1])
    if rng.random() < 0.25:
        h.ops.append(["restart"])          # the pass is made by a freshly started relay
    h.ops.append(["gc"])
    for k in (20000, 29999, 25000):
        h.ops.append(["query", [{"kinds": [k]}]])
    if rng.random() < 0.5:
        for _ in range(rng.randint(1, 4)):
            v = rng.choice(vals[:8])
            h.add(h.expiring(v) if v not in ("NONE", "TWO") else h.regular())
        h.ops.append(["advance", rng.choice([0, 1, 2, 3600])])
        if rng.random() < 0.25:
            h.ops.append(["restart"])
        h.ops.append(["gc"])
    return {"backend": backend, "ops": h.ops}


def evgen_author(ev):
    from .. import evgen
    for i, k in enumerate(evgen.AUTHORS):
        if k.pub == ev["pubkey"]:
            return i
    raise KeyError(ev["pubkey"])


def sample(case):
    if case.get("mode") == "relay":
        return {"mode": "relay", "backend": case["backend"], "gc_interval": case["interval"],
                "publisher": [i[0] if i[0] != "send" else i[1][:60] for i in case["clients"][1]["script"]][:10]}
    return {"backend": case["backend"],
            "ops": [oracles.brief(o[1]) if o[0] == "add" else o for o in case["ops"]][:14]}


def expclass(x, T):
    exps = [t[1] if len(t) > 1 else None for t in x["tags"] if t and t[0] == "expiration"]
    if model.is_ephemeral(x["kind"]):
        return "ephemeral:%d" % x["kind"]
    if not exps:
        return "none" if x["kind"] not in (19999, 30000) else "none:%d" % x["kind"]
    if len(exps) > 1:
        return "several"
    v = model.canon_expiration(exps[0])
    if v is None:
        return "not-a-number" if oracles.expiration_verdict(exps[0], T) == "keep" else "doubtful-numeral"
    d = len(exps[0])
    rel = "past" if v < int(T) else ("now" if v == int(T) else "future")
    return "%s/%ddigits" % (rel, d)


def index_entries(o, backend):
    """'together with all their index entries': after the pass the secondary structures describe exactly
    the events that are left"""
    if "post_full" not in o:
        return []
    out = []
    if backend == "sql":
        (pre_ev, pre_rows), (post_ev, post_rows) = o["pre_full"], o["post_full"]
        orphans = sorted(r for r in post_rows if r[0] not in post_ev)
        if orphans:
            out.append({"cls": "index-entries-left", "sig": "index-entries-left|sql|" + str(orphans[0][1])[:12],
                        "detail": {"rows": [[r[0][:8], r[1], r[2][:20]] for r in orphans[:4]]}})
        for i in post_ev:
            a = sorted(r for r in pre_rows if r[0] == i)
            b = sorted(r for r in post_rows if r[0] == i)
            if a != b and i in pre_ev:
                out.append({"cls": "index-entries-of-kept-event-changed", "sig": "index-entries-of-kept-event-changed|sql",
                            "detail": {"id": i[:8], "before": [r[1:] for r in a][:4], "after": [r[1:] for r in b][:4]}})
                break
    else:
        from . import c10
        from nostr_relay.storage import kv
        keys, data = o["post_raw"]
        problems, _ = c10.coherence(kv, keys, data)
        if problems:
            out.append({"cls": "index-entries-incoherent", "sig": "index-entries-incoherent|lmdb|%s|%s" % problems[0][:2],
                        "detail": {"problems": [list(p) for p in problems[:4]]}})
    return out


def check(obs, backend):
    viol = []
    nontrivial = False
    passed = False
    for o in obs:
        kind = o["op"][0]
        if kind == "gc" and "post" in o:
            pre, post, T = o["pre"], o["post"], o["T"]
            must, may = oracles.gc_sets(pre, T)
            removed = set(pre) - set(post)
            keepers = [i for i in pre if i not in must and i not in may
                       and any(t and t[0] == "expiration" for t in pre[i]["tags"])]
            if must and keepers:
                nontrivial = True
            if o["res"][0] != "ok":
                viol.append({"cls": "gc-error", "sig": "gc-error|%s|%s" % (backend, o["res"][1]),
                             "detail": {"res": o["res"]}})
            for i in sorted(must & set(post)):
                viol.append({"cls": "not-collected", "sig": "not-collected|%s|%s" % (backend, expclass(pre[i], T)),
                             "detail": {"T": int(T), "event": oracles.brief(pre[i])}})
            for i in sorted(removed - must - may):
                viol.append({"cls": "wrongly-collected",
                             "sig": "wrongly-collected|%s|%s" % (backend, expclass(pre[i], T)),
                             "detail": {"T": int(T), "event": oracles.brief(pre[i])}})
            if set(post) - set(pre):
                viol.append({"cls": "gc-added", "sig": "gc-added|" + backend, "detail": {}})
            viol += index_entries(o, backend)
            passed = True
        elif kind == "query" and passed and o["res"][0] == "ok":
            for e in o["res"][1]:
                if model.is_ephemeral(e["kind"]):
                    viol.append({"cls": "ephemeral-queryable", "sig": "ephemeral-queryable|%s" % backend,
                                 "detail": {"event": oracles.brief(e)}})
        elif kind == "add":
            passed = False if model.is_ephemeral(o["op"][1]["kind"]) else passed
    return viol, nontrivial


def run(case, sim):
    if case.get("mode") == "relay":
        return run_relay(case, sim)
    w, obs = store.run_store(sim, case["backend"], case["ops"], full_gc=True)
    viol, nontrivial = check(obs, case["backend"])
    viol += oracles.restart_changes(obs, case["backend"])
    seen, v2 = set(), []
    for v in viol:
        if v["sig"] not in seen:
            seen.add(v["sig"])
            v2.append(v)
    T = histgen.T0
    shape = [(o[1]["kind"], [t[1] for t in o[1]["tags"] if t[0] == "expiration"]) if o[0] == "add" else o[0]
             for o in case["ops"]]
    return {"violations": v2, "nontrivial": nontrivial,
            "probes": {"backend_" + case["backend"]: 1, "gc_passes": sum(1 for o in obs if o["op"][0] == "gc"),
                       "discriminating_pass": int(nontrivial)},
            "signature": hashlib.sha256(repr((case["backend"], shape)).encode()).hexdigest()[:16]}
