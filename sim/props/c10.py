"""
C10 -- every LMDB index entry has its record and every record all its index entries.

Store world on the LMDB back end.  After EVERY commit of the (fake) engine the whole keyspace is
walked: the secondary keys present must be exactly the union of the keys the repository's own
index writers emit for the surviving primary records (so a consistent change of layout is not an
alarm).  Histories include injected engine errors inside writer tasks.
"""
import hashlib
import random

from .. import histgen, model, oracles, kernel
from ..worlds import store

ID = "C10"
LEVEL = "exploration"
CHUNK = 60
CHUNK_DEADLINE = 600       # (long flavours: crowds, soaks, wide events; shared machines)
BUDGET = {"quick": {"runs": 4000, "wall": 120}, "thorough": {"runs": 200000, "wall": 1200}}
RULE = ("histories of 4-20 operations (add, replaceable chains, kind-5 deletions, expiring events + GC "
        "passes, API deletes, restart) over events with duplicate tags, non-string / empty / NUL / "
        "multi-byte tag names and values, half of the runs with injected lmdb errors at random "
        "put/delete/commit calls of writer tasks; full keyspace walk after every commit; non-trivial = "
        "at least one record was removed (supersede/delete/GC) or a fault fired; distinct = hash of "
        "(op kinds, commits, keys at end)")
COMPONENTS = {
    "real": ["kv.WriterThread.run/_post_save/_delete_event", "all kv Index.write/clear/convert classes",
             "kv.KVGarbageCollector", "kv.encode_event/decode_event", "msgpack (pure Python)"],
    "stub": ["LMDB engine (fake; also the fault seam)", "writer thread (stepped actor)"],
}
ASSUMPTIONS = ["two statements of the expected keys: (a) the repository's own Index.write on a recording "
               "transaction decides what counts as dangling / wrong value, (b) an independent model of the documented "
               "layout decides what must be there at least: created_at, kind, author, author+kind, every "
               "single-letter tag with a string value, and the expiration tag",
               "whoosh FTS index disabled (as shipped) and not covered"]
SHRINK = [["ops"]]

ODD_TAGS = [
    ["t", "x"], ["t", "x"], ["t", ""], ["t", "x\x00y"], ["é", "v"], ["t", "é"], ["p", "ab"], ["t", 5],
    ["t", True], ["t", None], ["t", "a", "b", "c"], ["t"], ["T", "x"], ["delegationx", "y"],
    ["expiration", "abc"], ["e", "zz"], ["r", "x" * 100], ["t", ["n"]], ["\U0001f600", "v"], ["t", 1.5],
]


def gen(rng, knobs):
    h = histgen.Hist(rng, nauthors=2)
    n = rng.randint(4, 20)
    for _ in range(n):
        c = rng.random()
        if c < 0.25:
            h.add(h.replaceable())
        elif c < 0.37 and h.events:
            h.add(h.deletion())
        elif c < 0.55:
            tags = [rng.choice(ODD_TAGS) for _ in range(rng.randint(1, 5))]
            h.add(h.regular(tags=tags))
        elif c < 0.63:
            h.add(h.expiring(str(histgen.T0 - rng.choice([5, 50, -50]))))
        elif c < 0.70:
            h.ops.append(["gc"])
        elif c < 0.75 and h.events:
            h.ops.append(["del", rng.choice(h.events)["id"]])
        elif c < 0.78:
            h.ops.append(["restart"])
        elif c < 0.82 and h.events:
            h.add(rng.choice(h.events))        # resubmission
        else:
            h.add(h.regular())
        if rng.random() < 0.06:
            # an event with very many indexable tags (a big contact list), often replaced or deleted right away
            big_kind = rng.choice([3, 1, 10002, 30000])
            n_tags = rng.choice([40, 65, 70, 130, 260])
            big = h.regular(author=0, kind=big_kind, tags=[["p", histgen.hexid(rng)] for _ in range(n_tags)] +
                            ([["d", "x"]] if big_kind == 30000 else []))
            h.add(big)
            m = rng.random()
            if m < 0.3:
                h.ops.append(["del", big["id"]])
            elif m < 0.6 and big_kind != 1:
                h.add(h.regular(author=0, kind=big_kind, created_at=big["created_at"] + 1,
                                tags=[["p", histgen.hexid(rng)] for _ in range(rng.choice([2, 70]))] +
                                ([["d", "x"]] if big_kind == 30000 else [])))
    faults = []
    if rng.random() < 0.5:
        for _ in range(rng.randint(1, 4)):
            faults.append([rng.randint(0, 120), rng.choice(["error", "mapfull", "disk"])])
    return {"backend": "lmdb", "ops": h.ops, "faults": sorted(faults), "settle": rng.random() < 0.6}


def sample(case):
    return {"faults": case["faults"], "settle_each": case["settle"],
            "ops": [oracles.brief(o[1]) if o[0] == "add" else o for o in case["ops"]][:12]}


class Recorder:
    def __init__(self):
        self.kv = {}

    def put(self, k, v, **kw):
        self.kv[bytes(k)] = bytes(v)
        return True

    def delete(self, k, **kw):
        self.kv.pop(bytes(k), None)
        return True


import re as _re

_LETTER = _re.compile(r"[A-Za-z]\Z")


def required_keys(row):
    """independent statement of 'appears under each of its attributes' from the documented key layout
    (0x01 created | 0x02 kind | 0x03 pubkey | 0x04 pubkey+kind | 0x09 tag, each suffixed 0x00 created_at(4)
    0x00 id(32)); required = the attributes NIP-01 makes queryable (single-letter tags with string values)
    plus the expiration tag the collector relies on; what else the repo chooses to index is its business"""
    idb, created, kind, pub, tags = bytes(row[1]), row[2], row[3], bytes(row[4]), row[6]
    ct = created.to_bytes(4, "big")
    k4 = kind.to_bytes(4, "big")
    suffix = b"\x00" + ct + b"\x00" + idb
    keys = {b"\x01" + ct + suffix: "created_at", b"\x02" + k4 + suffix: "kind", b"\x03" + pub + suffix: "author",
            b"\x04" + pub + b"\x00" + k4 + suffix: "author+kind"}
    for t in tags:
        if len(t) >= 2 and isinstance(t[0], str) and isinstance(t[1], str) and (_LETTER.match(t[0]) or t[0] == "expiration"):
            keys[b"\x09" + t[0].encode() + b"\x00" + t[1].encode() + suffix] = "tag:" + t[0]
    return keys


def coherence(kv, keys, data):
    """compare the keyspace with what the repo's index writers would produce for its records"""
    from pip._vendor import msgpack
    problems = []
    rec = Recorder()
    n_records = 0
    for k in keys:
        if k[:1] != b"\x00":
            continue
        n_records += 1
        try:
            row = msgpack.unpackb(data[k], use_list=False)
            ev = kv.decode_event(row)
        except Exception as e:
            problems.append(("undecodable-record", k.hex()[:20], repr(e)[:60]))
            continue
        if len(k) != 33 or ev is None or k[1:] != ev.id_bytes:
            problems.append(("primary-key-mismatch", k.hex()[:20], ""))
            continue
        try:
            for rk, what in required_keys(row).items():
                if rk not in data:
                    problems.append(("unindexed", what, rk.hex()[:40]))
        except (OverflowError, ValueError, TypeError):
            pass
        for name, index in kv.INDEXES.items():
            if not index.enabled or name == "search":
                continue
            try:
                index.write(ev, rec)
            except Exception as e:
                problems.append(("index-writer-raises", name, repr(e)[:60]))
    actual = {k: data[k] for k in keys if k != b"\xee"}
    for k in actual:
        if k not in rec.kv:
            cls = "dangling" if k[:1] != b"\x00" else "primary-unexpected"
            problems.append((cls, "prefix=%02x" % k[0], k.hex()[:40]))
    for k, v in rec.kv.items():
        if k not in actual:
            problems.append(("missing", "prefix=%02x" % k[0], k.hex()[:40]))
        elif actual[k] != v:
            problems.append(("wrong-value", "prefix=%02x" % k[0], k.hex()[:40]))
    if b"\xee" not in data:
        problems.append(("sentinel-missing", "", ""))
    return problems, n_records


def run(case, sim):
    import lmdb
    from .. import seams
    w = store.StoreWorld(sim, "lmdb", settle_each=case.get("settle", True))
    viol = []
    stats = {"commits": 0, "checked_keys": 0, "removed": 0, "max_records": 0}
    fault_at = {k: kind for k, kind in case.get("faults", [])}
    counter = {"n": 0}

    def fault_hook(op, env, txn, key):
        if op in ("get", "seek"):
            return
        n = counter["n"]
        counter["n"] += 1
        kind = fault_at.get(n)
        if kind:
            sim.faults["lmdb_" + kind] += 1
            cls = {"mapfull": lmdb.MapFullError, "disk": lmdb.DiskError}.get(kind, lmdb.Error)
            raise cls("injected %s at engine call %d (%s)" % (kind, n, op))

    last = {"n": None}

    def on_commit(env):
        kv = seams.install_kv(sim)
        keys, data = env.snapshot()
        stats["commits"] += 1
        stats["checked_keys"] += len(keys)
        problems, nrec = coherence(kv, keys, data)
        if last["n"] is not None and nrec < last["n"]:
            stats["removed"] += 1
        last["n"] = nrec
        stats["max_records"] = max(stats["max_records"], nrec)
        for cls, where, key in problems[:3]:
            viol.append({"cls": cls, "sig": "%s|%s" % (cls, where),
                         "detail": {"commit": stats["commits"], "key": key, "problems": len(problems)}})

    async def main(_):
        await w.env.open()
        lmdb.COMMIT_HOOK = on_commit
        lmdb.FAULT_HOOK = fault_hook
        await w.settle()
        try:
            for i, op in enumerate(case["ops"]):
                if op[0] == "restart":
                    lmdb.FAULT_HOOK = None      # a fault while starting up only prevents the start
                o = await w.do(i, op)
                w.obs.append(o)
                if op[0] == "restart":
                    lmdb.COMMIT_HOOK = on_commit
                    lmdb.FAULT_HOOK = fault_hook
            await w.settle()
            on_commit(w.env.storage.db)
        finally:
            await w.env.close()

    try:
        kernel.run_sim(sim, main)
    finally:
        w.env.cleanup()
    seen, v2 = set(), []
    for v in viol:
        if v["sig"] not in seen:
            seen.add(v["sig"])
            v2.append(v)
    fired = sum(sim.faults.values())
    shape = ([o[0] for o in case["ops"]], stats["commits"], stats["checked_keys"])
    return {"violations": v2, "nontrivial": stats["removed"] > 0 or fired > 0,
            "probes": {"commits_checked": stats["commits"], "keys_walked": stats["checked_keys"],
                       "commits_that_removed_records": stats["removed"], "faults_fired": fired,
                       "max_records": stats["max_records"]},
            "signature": hashlib.sha256(repr(shape).encode()).hexdigest()[:16]}
