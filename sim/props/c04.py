"""
C04 -- every frame the relay sends is well-formed and every served event is verbatim.

Relay world (input-dominated; what the simulator adds is reach): hostile subscription ids and
validly signed events with hostile contents/tag structures travel through both storage encodings
(SQL JSON/BLOB columns, msgpack rows), the hand-written serializer, stored and live delivery, the
HTTP /e/<id> resource and the error frames that injected storage faults produce.
"""
import collections
import copy
import json

from .. import histgen, model, qcommon, evgen
from ..worlds import relay

ID = "C04"
LEVEL = "exploration"
CHUNK = 40
BUDGET = {"quick": {"runs": 2500, "wall": 150}, "thorough": {"runs": 100000, "wall": 1200}}
RULE = ("validly signed events with contents over all Unicode planes / NUL / escapes / quotes and tag "
        "arrays containing empty strings, numbers, big integers, floats, booleans, null, nested arrays, "
        "single elements; subscription ids with quotes, backslashes, control characters, U+2028, non-BMP, "
        "empty, 10 kB, non-string JSON values; subscribers before (live path) and after (stored path) the "
        "submissions; HTTP /e/<id> for every accepted id; 0-2 injected SQL errors; both back ends; "
        "non-trivial = at least one hostile event was accepted and served and one hostile id was echoed; "
        "distinct = hash of (backend, hostile features accepted, hostile ids)")
COMPONENTS = {
    "real": ["util.event_as_json / json_dumps (rapidjson)", "web.send_subscriptions / start_client frames",
             "db.event_from_tuple + SQL JSON/BLOB columns", "kv.encode_event/decode_event + msgpack",
             "web.ViewEventResource.on_get"],
    "stub": ["websocket transport (text must be UTF-8 encodable, as a real socket demands)", "falcon "
             "request/response objects for /e/<id>", "LMDB engine (fake)", "threads (actors)"],
}
ASSUMPTIONS = ["numbers are compared by value (1 == 1.0)", "for non-string subscription ids any string id "
               "is accepted in the answer", "an event the relay refuses owes nothing"]
SHRINK = [["clients", "*", "script"], ["clients"]]

CONTENTS = ["plain", "", "quote\"s", "back\\slash", "nl\nnl", "tab\t", "\x00nul", "\x1f", "\x7f", "é", "  ",
            "\U0001f600", "�", "퟿", "a" * 3000, "\\u0041", "</script>", "\r\n", "\x08\x0c",
            "a long content with \"quotes\", a back\\slash, a\nnewline and \U0001f600 non-BMP " * 3]
TAG_ITEMS = ["", "x", 5, -1, 1.5, 2 ** 53, 2 ** 64, 2 ** 70, True, False, None, ["n"], [], {"a": 1}, "\x00", "é\U0001f600",
             "q\"", "b\\"]
SUB_IDS = ['q"uote', "back\\slash", "nl\n", "\x00", "\x1f", " ", "\U0001f600", "", "x" * 10000, "é", "a b", "'",
           "\\u0041", "]", '","', 5, None, True, 1.5, ["x"], {"a": 1}]


def gen(rng, knobs):
    backend = rng.choice(["sql", "lmdb"])
    h = histgen.Hist(rng, nauthors=3)
    evs = []
    for _ in range(rng.randint(2, 7)):
        tags = []
        for _ in range(rng.choice([0, 1, 2, 3])):
            c = rng.random()
            if c < 0.5:
                tags.append([rng.choice(["t", "p", "e", "x", "title", "é"]), rng.choice(TAG_ITEMS)])
            elif c < 0.7:
                tags.append([rng.choice(["t", "x"])] + [rng.choice(TAG_ITEMS) for _ in range(rng.randint(0, 3))])
            elif c < 0.8:
                tags.append([rng.choice(["t", "only"])])
            else:
                tags.append(["t", rng.choice(["x", "xy"])])
        try:
            ev = evgen.make(rng.choice(h.authors), kind=rng.choice([1, 1, 7, 30000, 10000]),
                            created_at=histgen.T0 - rng.choice([1, 5, 10]), tags=tags,
                            content=rng.choice(CONTENTS))
        except Exception:
            continue
        evs.append(ev)
    half = len(evs) // 2
    pubs = [k.pub for k in evgen.KEYS]

    def req(sid):
        return ["send", json.dumps(["REQ", sid, {"authors": pubs}])]
    live_ids = [rng.choice(SUB_IDS) for _ in range(rng.choice([1, 2]))]
    stored_ids = [rng.choice(SUB_IDS) for _ in range(rng.choice([1, 2]))]
    c_live = [req(s) for s in live_ids] + [["barrier"]]
    c_sub = [["barrier"]] + [["send", json.dumps(["EVENT", e])] for e in evs] + [["barrier"]]
    c_stored = [["barrier"], ["barrier"]] + [req(s) for s in stored_ids]
    if rng.random() < 0.3:
        c_stored.append(["send", json.dumps(["CLOSE", rng.choice(stored_ids)])])
    faults = sorted(rng.sample(range(3, 80), rng.choice([0, 0, 1, 2]))) if backend == "sql" else []
    return {"backend": backend, "faults": faults,
            "clients": [{"script": c_live, "slow": rng.random() < 0.2}, {"script": c_sub},
                        {"script": c_stored, "slow": rng.random() < 0.2}]}


def sample(case):
    evs = [json.loads(i[1])[1] for i in case["clients"][1]["script"] if i[0] == "send"]
    ids = [json.loads(i[1])[1] for c in (case["clients"][0], case["clients"][2]) for i in c["script"] if i[0] == "send"]
    return {"backend": case["backend"], "sub_ids": [str(i)[:30] for i in ids],
            "events": [{"content": e["content"][:30], "tags": str(e["tags"])[:80]} for e in evs][:4]}


def parse(text):
    try:
        return json.loads(text)
    except Exception:
        return None


def same(a, b):
    """field-for-field equality, numbers by value, bool distinct from numbers"""
    if isinstance(a, bool) or isinstance(b, bool):
        return isinstance(a, bool) and isinstance(b, bool) and a == b
    if isinstance(a, (int, float)) and isinstance(b, (int, float)):
        return a == b
    if type(a) != type(b):
        return False
    if isinstance(a, list):
        return len(a) == len(b) and all(same(x, y) for x, y in zip(a, b))
    if isinstance(a, dict):
        return set(a) == set(b) and all(same(a[k], b[k]) for k in a)
    return a == b


def feature(ev):
    f = set()
    for t in ev["tags"]:
        for x in t[1:]:
            if not isinstance(x, str):
                f.add(type(x).__name__)
        if len(t) == 1:
            f.add("bare")
    if any(ord(ch) < 32 or ord(ch) > 0xffff or ch in '"\\ ' for ch in ev["content"]):
        f.add("content")
    return f


def run(case, sim):
    backend = case["backend"]
    w = relay.RelayWorld(sim, backend, case["clients"])
    http = {}

    async def arm(world):
        for n in case.get("faults", []):
            sim.sql.global_faults[sim.sql.call_no + n] = "disk I/O error"
    w.before_clients = arm

    async def at_quiescence(world):
        import falcon
        from nostr_relay.web import ViewEventResource
        for it in case["clients"][1]["script"]:
            if it[0] != "send":
                continue
            ev = json.loads(it[1])[1]

            class Resp:
                media = None
            r = Resp()
            try:
                await ViewEventResource(world.env.storage).on_get(None, r, ev["id"])
                http[ev["id"]] = ("ok", r.media)
            except falcon.HTTPNotFound:
                http[ev["id"]] = ("404", None)
            except Exception as e:
                http[ev["id"]] = ("err", "%s: %s" % (type(e).__name__, e))
    w.at_quiescence = at_quiescence
    w.run()
    viol = []
    probes = collections.Counter()
    submitted = {}
    for it in case["clients"][1]["script"]:
        if it[0] == "send":
            ev = json.loads(it[1])[1]
            submitted[ev["id"]] = ev
    accepted = set()
    for s, t in w.clients[1].transcript:
        m = parse(t)
        if isinstance(m, list) and len(m) == 4 and m[0] == "OK" and m[2] is True:
            accepted.add(m[1])
    served_features = set()
    echoed_hostile = False
    for c in w.clients:
        my_ids = []
        for it in c.script:
            if it[0] == "send":
                m = parse(it[1])
                if isinstance(m, list) and len(m) >= 2 and m[0] in ("REQ", "CLOSE"):
                    my_ids.append(m[1])
        str_ids = {i for i in my_ids if isinstance(i, str)}
        has_nonstr = any(not isinstance(i, str) for i in my_ids)
        seen_eose = set()
        for s, t in c.transcript:
            if t.startswith("__CLOSE__"):
                continue
            path = "?"
            try:
                m = model.strict_frame(t)
            except model.FrameError as e:
                guess = t[2:7].strip('",')
                viol.append({"cls": "malformed-frame", "sig": "malformed-frame|%s|%s" % (backend, guess),
                             "detail": {"frame": t[:300], "error": str(e)[:100]}})
                continue
            if m[0] in ("EVENT", "EOSE"):
                sid = m[1]
                if sid not in str_ids and not has_nonstr:
                    viol.append({"cls": "wrong-sub-id", "sig": "wrong-sub-id|%s|%s" % (backend, m[0]),
                                 "detail": {"got": sid[:60], "mine": [str(i)[:30] for i in my_ids]}})
                if sid in str_ids and any(ch in sid for ch in '"\\\n\x00 ') or sid == "":
                    echoed_hostile = True
                if m[0] == "EOSE":
                    seen_eose.add(sid)
            if m[0] == "EVENT":
                ev = m[2]
                orig = submitted.get(ev.get("id"))
                path = "live" if c.idx == 0 else "stored"
                if orig is None:
                    viol.append({"cls": "unknown-event-served", "sig": "unknown-event-served|" + backend,
                                 "detail": {"id": str(ev.get("id"))[:16]}})
                    continue
                served_features |= feature(orig)
                if not same(ev, orig):
                    diff = [k for k in orig if not same(ev.get(k), orig[k])]
                    viol.append({"cls": "not-verbatim", "sig": "not-verbatim|%s|%s|%s" % (backend, path, "+".join(diff)),
                                 "detail": {"field": diff, "served": str({k: ev.get(k) for k in diff})[:300],
                                            "accepted": str({k: orig[k] for k in diff})[:300]}})
                elif not model.authentic(ev)[0]:
                    viol.append({"cls": "served-not-authentic", "sig": "served-not-authentic|%s|%s" % (backend, path),
                                 "detail": {"why": model.authentic(ev)[1]}})
        if w.final.get("alive", {}).get(c.idx) and not case.get("faults"):
            for i in str_ids:
                closed = any(parse(it[1]) == ["CLOSE", i] for it in c.script if it[0] == "send")
                if i not in seen_eose and not closed:
                    viol.append({"cls": "no-eose-under-id", "sig": "no-eose-under-id|%s" % backend,
                                 "detail": {"id": i[:60], "eose_ids": [x[:30] for x in seen_eose]}})
    for eid, (st, media) in http.items():
        orig = submitted[eid]
        if eid in accepted and st == "ok":
            try:
                body = json.loads(json.dumps(media))
            except Exception as e:
                viol.append({"cls": "http-not-json", "sig": "http-not-json|" + backend, "detail": {"error": str(e)[:100]}})
                continue
            probes["http_served"] += 1
            if not same(body, orig):
                diff = [k for k in orig if not same(body.get(k), orig[k])]
                viol.append({"cls": "not-verbatim", "sig": "not-verbatim|%s|http|%s" % (backend, "+".join(diff)),
                             "detail": {"field": diff, "served": str({k: body.get(k) for k in diff})[:300],
                                        "accepted": str({k: orig[k] for k in diff})[:300]}})
        elif st == "err" and not case.get("faults"):
            viol.append({"cls": "http-error", "sig": "http-error|%s|%s" % (backend, media.split(":")[0]),
                         "detail": {"error": media[:200]}})
    seen, v2 = set(), []
    for v in viol:
        if v["sig"] not in seen:
            seen.add(v["sig"])
            v2.append(v)
    probes["backend_" + backend] = 1
    probes["accepted"] = len(accepted)
    for f in served_features:
        probes["served_feature_" + f] += 1
    return {"violations": v2, "nontrivial": bool(served_features) and echoed_hostile, "probes": dict(probes),
            "signature": qcommon.h16((backend, sorted(served_features), sorted(map(str, [i[1][:40] for c in case["clients"] for i in c["script"] if i[0] == "send" and i[1].startswith('["REQ"')]))))}
