"""
C18 -- rate limits bound admitted messages per window and do not over-block.

Limiter world: the real RateLimiter alone on the virtual monotonic clock.  The schedule is the
arrival sequence (time step, address, command) incl. cleanup() calls (disconnects); hours of
sustained traffic cost nothing in virtual time.
"""
import collections

ID = "C18"
LEVEL = "exploration"
CHUNK = 250
BUDGET = {"quick": {"runs": 6000, "wall": 120}, "thorough": {"runs": 400000, "wall": 1200}}
RULE = ("rule sets (1-3 rules per command; scopes global / ip / specific IPv4 address; n in "
        "{-1,1,2,3,5,10}; intervals s/m/h) x arrival sequences of (dt, address, command) with dt on "
        "the grid {0, eps, I-eps, I, I+eps} (systematic short sequences for even run indices, random "
        "long/sustained ones otherwise) and interleaved cleanup() calls; 6% of the runs are bounded-exhaustive: one "
        "small rule set x ALL 780 arrival sequences of length <= 4 over that grid; non-trivial = at least one "
        "message refused and one admitted after a refusal; distinct = hash of (rules, decision "
        "string)")
COMPONENTS = {"real": ["nostr_relay.rate_limiter.RateLimiter"], "stub": ["monotonic clock (virtual)"]}
ASSUMPTIONS = [
    "window = half-open interval [t, t+I): n+1 admitted messages must span at least I",
    "a refusal is justified when some applicable rule has itself passed >= n messages of that type in its "
    "scope within the trailing interval; which rule refused a message is not observable, so a refused message "
    "counts as passed by a rule whenever a rule of another scope also applied to it (upper bound, never "
    "stricter than the statement)",
    "n = 0 is not generated (documentation defines positive frequencies and -1)",
    "state bound: stored scalars of the limiter <= 2 * sum over (address, command) pairs of the peak "
    "number of arrivals inside one longest-interval window + 2 per pair + 16 (independent of run length)",
]
SHRINK = [["arrivals"]]

ADDRS = ["10.0.0.1", "10.0.0.2", "192.168.1.7", "8.8.8.8"]
CMDS = ["EVENT", "REQ", "CLOSE"]
UNITS = {"s": 1, "m": 60, "h": 3600, "sec": 1, "minute": 60, "hour": 3600, "second": 1, "min": 60,
         "hr": 3600}
EPS = 0.001


def _rule(rng, allow_exempt=True):
    n = rng.choice([1, 1, 2, 2, 3, 5, 10] + ([-1] if allow_exempt else []))
    u = rng.choice(["s", "s", "s", "m", "h", "sec", "minute", "hour", "second", "min", "hr"])
    return "%d/%s" % (n, u)


def gen_enum(rng):
    """bounded-exhaustive mode: one small rule set, ALL arrival sequences up to length 5 over the grid
    {0, eps, I-eps, I, I+eps} (one address, one command, optional cleanup between two arrivals)"""
    n1 = rng.choice([1, 2, 3])
    u1 = rng.choice(["s", "m"])
    spec = "%d/%s" % (n1, u1)
    if rng.random() < 0.5:
        u2 = "m" if u1 == "s" else "h"
        spec += ",%d/%s" % (rng.choice([2, 3, 5]), u2)
    scope = rng.choice(["ip", "global", ADDRS[0]])
    rules = {scope: {"EVENT": spec}}
    if scope == ADDRS[0] and rng.random() < 0.5:
        rules["ip"] = {"EVENT": "1/s"}
    return {"mode": "enum", "rules": rules, "arrivals": [], "length": 4, "cleanup": rng.random() < 0.3}


def gen_override_cleanup(rng):
    """a specific-address rule (short interval) for ONE command next to generic rules (longer interval) for another:
    the address's history for the other command lives in the same per-address entry and cleanup() must keep it
    as long as the generic rule needs it"""
    addr = rng.choice(ADDRS[:3])
    short_u, long_u = rng.choice([("s", "m"), ("s", "h"), ("m", "h")])
    n = rng.choice([1, 2, 3])
    cmd_a, cmd_b = rng.sample(CMDS, 2)
    rules = {addr: {cmd_a: "%d/%s" % (rng.choice([1, 5, -1]), short_u)},
             rng.choice(["ip", "global"]): {cmd_b: "%d/%s" % (n, long_u)}}
    S, L = UNITS[short_u], UNITS[long_u]
    arrivals = [[0, addr, cmd_b] for _ in range(n)] + [[EPS, addr, cmd_a]]
    arrivals += [[S + rng.choice([EPS, S, 2 * S]), "", "CLEANUP"]]
    arrivals += [[EPS, addr, cmd_b] for _ in range(n + 1)]
    arrivals += [[rng.choice([EPS, L / 3]), rng.choice(ADDRS), rng.choice(CMDS)] for _ in range(rng.randint(0, 6))]
    return {"rules": rules, "arrivals": arrivals, "mode": "override-cleanup"}


def gen(rng, knobs):
    if rng.random() < 0.06:
        return gen_enum(rng)
    if rng.random() < 0.06:
        return gen_override_cleanup(rng)
    rules = {}
    scopes = ["global", "ip"] + [a for a in ADDRS[:3] if rng.random() < 0.3]
    rng.shuffle(scopes)
    for sc in scopes[: rng.randint(1, 3)]:
        cmds = {}
        for c in CMDS:
            if rng.random() < (0.8 if c == "EVENT" else 0.3):
                k = rng.randint(1, 3)
                rs, seen_iv = [], set()
                for _ in range(k):
                    r = _rule(rng, allow_exempt=(sc not in ("global",)))
                    iv = UNITS[r.split("/")[1]]
                    # the same interval may be written twice (also in another spelling): every written rule
                    # counts, so the stricter one decides; an exemption is never paired with a limit of its interval
                    n_new = int(r.split("/")[0])
                    clash = [x for x in rs if UNITS[x.split("/")[1]] == iv]
                    if not clash or (n_new > 0 and all(int(x.split("/")[0]) > 0 for x in clash) and rng.random() < 0.6):
                        seen_iv.add(iv)
                        rs.append(r)
                cmds[c] = ",".join(rs)
        if cmds:
            rules[sc] = cmds
    if not rules:
        rules["ip"] = {"EVENT": _rule(rng, False)}
    intervals = sorted({UNITS[r.split("/")[1]] for sc in rules.values() for rs in sc.values()
                        for r in rs.split(",")})
    mode = rng.choice(["short", "short", "burst", "sustained", "mixed"])
    arrivals = []
    if mode == "short":
        for _ in range(rng.randint(2, 10)):
            I = rng.choice(intervals)
            dt = rng.choice([0, EPS, I - EPS, I, I + EPS, I / 2])
            arrivals.append([dt, rng.choice(ADDRS[:2]), rng.choice(CMDS[:2])])
    elif mode == "burst":
        for _ in range(rng.randint(10, 60)):
            I = rng.choice(intervals)
            dt = rng.choice([0, 0, EPS, 0.1, I / 3, I - EPS, I, I + EPS])
            arrivals.append([dt, rng.choice(ADDRS), rng.choice(CMDS)])
            if rng.random() < 0.05:
                arrivals.append([0, "", "CLEANUP"])
    elif mode == "sustained":
        # steady traffic just below (or at) the tightest limit for a long virtual time
        I = intervals[0]
        n = rng.choice([1, 2, 5, 10])
        period = I / n * rng.choice([1.0, 1.05, 1.5, 2.0])
        addr = rng.choice(ADDRS)
        for _ in range(rng.randint(200, 3000)):
            arrivals.append([period, addr, "EVENT"])
    else:
        for _ in range(rng.randint(20, 200)):
            dt = rng.choice([0, EPS, 0.2, 0.5, 1, 1 + EPS, 30, 59.999, 60, 61, 3599, 3600, 3601, 7200])
            arrivals.append([dt, rng.choice(ADDRS), rng.choice(CMDS)])
            if rng.random() < 0.1:
                arrivals.append([0, "", "CLEANUP"])
    return {"rules": rules, "arrivals": arrivals, "mode": mode}


def sample(case):
    if case.get("mode") == "enum":
        return {"mode": "enum: all sequences of length <= %d over {0,eps,I-eps,I,I+eps}" % case["length"],
                "rules": case["rules"], "cleanup_in_the_middle": case["cleanup"]}
    c = dict(case)
    c["arrivals"] = case["arrivals"][:12]
    c["n_arrivals"] = len(case["arrivals"])
    return c


def parse_rules(rules):
    out = {}
    for sc, cmds in rules.items():
        for c, spec in cmds.items():
            lst = []
            for r in spec.split(","):
                n, u = r.split("/")
                lst.append((UNITS[u.lower()], int(n)))
            out[(sc, c)] = lst
    return out


def deep_count(obj, seen=None, depth=0):
    """number of scalars held in the containers reachable from obj"""
    if seen is None:
        seen = set()
    if id(obj) in seen or depth > 8:
        return 0
    if isinstance(obj, (int, float, str, bytes, type(None))):
        return 1
    seen.add(id(obj))
    if isinstance(obj, dict):
        return sum(deep_count(v, seen, depth + 1) for v in obj.values())
    if isinstance(obj, (list, tuple, set, frozenset, collections.deque)):
        return sum(deep_count(v, seen, depth + 1) for v in obj)
    return 0


def run(case, sim):
    from nostr_relay.rate_limiter import RateLimiter
    from .. import seams
    seams.activate(sim)
    try:
        return _run(case, sim, RateLimiter)
    finally:
        seams.deactivate()


def _run(case, sim, RateLimiter):
    if case.get("mode") == "enum":
        return _run_enum(case, sim, RateLimiter)
    return _run_one(case, sim, RateLimiter)


def _run_enum(case, sim, RateLimiter):
    import itertools
    rules = parse_rules(case["rules"])
    I = min(i for rs in rules.values() for i, n in rs)
    grid = [0, EPS, I - EPS, I, I + EPS]
    total = 0
    viols = []
    refusing = 0
    for L in range(1, case.get("length", 5) + 1):
        for seq in itertools.product(grid, repeat=L):
            arr = []
            for j, dt in enumerate(seq):
                arr.append([dt, ADDRS[0], "EVENT"])
                if case.get("cleanup") and j == L // 2:
                    arr.append([0, "", "CLEANUP"])
            sub = {"rules": case["rules"], "arrivals": arr, "mode": "enum-seq"}
            t0 = sim.clock.mono
            r = _run_one(sub, sim, RateLimiter, quiet=True)
            total += 1
            if r["probes"].get("refusals"):
                refusing += 1
            for v in r["violations"]:
                v = dict(v)
                v["detail"] = dict(v["detail"], sequence=list(seq))
                viols.append(v)
            if viols:
                break
        if viols:
            break
    sim.note("enum", "%d %d" % (total, refusing))
    import hashlib
    return {"violations": viols[:1], "probes": {"exhaustive_sequences": total, "mode_enum": 1, "enum_sequences_with_refusal": refusing},
            "signature": hashlib.sha256(repr(sorted(case["rules"].items())).encode()).hexdigest()[:16],
            "nontrivial": refusing > 0}


def _run_one(case, sim, RateLimiter, quiet=False):
    rules = parse_rules(case["rules"])
    lim = RateLimiter({k: dict(v) for k, v in case["rules"].items()})
    viol = []
    arrivals = collections.defaultdict(list)   # (addr, cmd) -> times of all arrivals
    admitted = collections.defaultdict(list)   # (addr, cmd) -> times admitted
    refused_log = collections.defaultdict(list)  # (addr, cmd) -> (time, scopes of the applicable rules)
    decisions = []
    refused = admitted_after_refusal = 0
    seen_refusal = False
    max_interval = max(i for rs in rules.values() for i, n in rs)
    state_fields = [k for k in vars(lim) if k not in ("log", "rules")]
    window = collections.defaultdict(collections.deque)
    peak = collections.Counter()
    peak_state = 0

    def applicable(addr, cmd):
        """[(scope, members-predicate, interval, n)] per the documented override"""
        if (addr, cmd) in rules:
            return [("addr", lambda a: a == addr, i, n) for i, n in rules[(addr, cmd)]]
        out = []
        # addresses with their own rule for this command are outside the generic scopes
        special = {a for (a, c) in rules if c == cmd and a not in ("global", "ip")}
        if ("global", cmd) in rules:
            out += [("global", lambda a: a not in special, i, n) for i, n in rules[("global", cmd)]]
        if ("ip", cmd) in rules:
            out += [("ip", lambda a: a == addr, i, n) for i, n in rules[("ip", cmd)]]
        return out

    for step, (dt, addr, cmd) in enumerate(case["arrivals"]):
        sim.clock.mono += dt
        now = sim.clock.mono
        if cmd == "CLEANUP":
            lim.cleanup()
            if not quiet:
                sim.note("cleanup")
            continue
        limited = bool(lim.is_limited(addr, [cmd, {}]))
        if not quiet:
            sim.note("arr", "%s %s %s" % (addr, cmd, int(limited)))
        decisions.append("1" if limited else "0")
        app = applicable(addr, cmd)
        if limited:
            refused += 1
            seen_refusal = True
            justified = False
            for scope, member, interval, n in app:
                if n < 0:
                    continue
                # messages this rule has passed: the admitted ones, and those a rule of ANOTHER scope may have
                # refused after this one let them through (which rule refused is not observable); a message
                # that only this scope's rules judged and refused was not passed by them
                cnt = 0
                for (a, c), ts in admitted.items():
                    if c == cmd and member(a):
                        cnt += sum(1 for t in ts if now - t < interval)
                for (a, c), lst in refused_log.items():
                    if c == cmd and member(a):
                        cnt += sum(1 for t, scopes in lst if now - t < interval and scopes - {scope})
                if cnt >= n:
                    justified = True
                    break
            refused_log[(addr, cmd)].append((now, {sc for sc, *_ in app}))
            if not justified:
                viol.append({
                    "cls": "overblock",
                    "sig": "overblock|%s" % ("norule" if not app else "+".join(sorted({s for s, *_ in app}))),
                    "detail": {"step": step, "addr": addr, "cmd": cmd, "t": now,
                               "rules": [(s, i, n) for s, _, i, n in app]},
                })
        else:
            if seen_refusal:
                admitted_after_refusal += 1
            admitted[(addr, cmd)].append(now)
            # window invariant for every applicable rule, over admitted messages only
            for scope, member, interval, n in app:
                if n < 0:
                    continue
                ts = sorted(t for (a, c), tl in admitted.items() if c == cmd and member(a) for t in tl)
                inwin = [t for t in ts if now - t < interval - 1e-9]
                if len(inwin) > n:
                    viol.append({
                        "cls": "window",
                        "sig": "window|%s|n=%d" % (scope, n),
                        "detail": {"step": step, "addr": addr, "cmd": cmd, "t": now,
                                   "rule": [scope, interval, n], "in_window": inwin[-(n + 2):]},
                    })
            # exempt: n = -1 in an applicable specific rule must never refuse -- covered by overblock
        arrivals[(addr, cmd)].append(now)
        # what any limiter may need to remember for this (address, command): the arrivals of the
        # last max_interval seconds; its peak over time bounds what may still be held for an idle pair
        win = window[(addr, cmd)]
        win.append(now)
        while win and now - win[0] > max_interval:
            win.popleft()
        peak[(addr, cmd)] = max(peak[(addr, cmd)], len(win))
        if step % 50 == 49 or step == len(case["arrivals"]) - 1:
            stored = sum(deep_count(getattr(lim, f)) for f in state_fields)
            peak_state = max(peak_state, stored)
            recent = sum(peak.values())
            bound = 2 * recent + 2 * len(peak) + 16
            if stored > bound:
                viol.append({
                    "cls": "state-unbounded",
                    "sig": "state-unbounded",
                    "detail": {"step": step, "stored_scalars": stored, "bound": bound,
                               "arrivals_in_longest_interval": recent, "t": now},
                })
                break
    dec = "".join(decisions)
    probes = {
        "refusals": refused,
        "admitted_after_refusal": admitted_after_refusal,
        "mode_" + case.get("mode", "?"): 1,
        "sustained_over_1h": 1 if sim.clock.mono > 3600 else 0,
        "peak_state": 0,
    }
    import hashlib
    sig = hashlib.sha256((repr(sorted(case["rules"].items())) + dec).encode()).hexdigest()[:16]
    # keep one violation per class
    seen = set()
    v2 = []
    for v in viol:
        if v["sig"] not in seen:
            seen.add(v["sig"])
            v2.append(v)
    return {"violations": v2, "probes": probes, "signature": sig,
            "nontrivial": refused > 0 and admitted_after_refusal > 0}
