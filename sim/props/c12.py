"""
C12 -- a limit returns the newest matching events, never more than allowed.

Store world, both back ends, REQ path (storage.subscribe, the path that applies max_limit).
max_limit is a per-chunk knob (it is baked in at import time), small in most chunks.
"""
import collections

from .. import histgen, model, qcommon, kernel, evgen
from ..worlds import store

ID = "C12"
LEVEL = "exploration"
CHUNK = 40
BUDGET = {"quick": {"runs": 3000, "wall": 150}, "thorough": {"runs": 150000, "wall": 1200}}
RULE = ("stores with n-1, n, n+1 and 3n events matching a filter of limit n in {0,1,2,max_limit-1,"
        "max_limit,max_limit+1,10^9,absent}, max_limit in {3,5,8,10,6000} per chunk, ties at the cut, "
        "single- and multi-value filters of every shape, 1-5 filters per REQ, both back ends; "
        "non-trivial = some filter had more matches than its effective limit; distinct = hash of "
        "(backend, max_limit, per-query (shape, limit, matches))")
COMPONENTS = {
    "real": ["BaseStorage.subscribe", "NostrQuery.limit", "db.Subscription.build_query", "kv.Subscription."
             "prepare / planner / execute_one_plan", "Config.max_limit"],
    "stub": ["LMDB engine (fake)", "thread pools / threads (actors)"],
}
ASSUMPTIONS = ["events sharing the cut-off timestamp may be chosen either way",
               "for REQs with several filters only the total (sum of per-filter caps) and per-filter "
               "recency via the union of newest sets are judged"]
SHRINK = [["ops"], ["ops", "*", 1]]


def chunk_knobs(seed, c):
    k = {"max_limit": [5, 3, 8, 10, 6000, 4][c % 6]}
    if (c // 6) % 2 == 1:
        k["early_import"] = ["nostr_relay.storage"]      # the package is imported before the configuration arrives
    return k


def gen(rng, knobs):
    ml = knobs.get("max_limit", 6000)
    backend = rng.choice(["sql", "lmdb"])
    h = histgen.Hist(rng, nauthors=3)
    # a focus filter and a store sized relative to its limit
    n = rng.choice([0, 1, 2, max(ml - 1, 1), ml, ml + 1]) if ml < 100 else rng.choice([0, 1, 2, 3, 5])
    size = rng.choice([max(n - 1, 0), n, n + 1, 3 * n + 1, 2 * ml + 1 if ml < 100 else 7])
    shape = rng.choice(["kinds", "authors", "authors+kinds", "tags", "kinds*", "tags*", "authors*",
                        "kinds+time", "tags+kinds", "time"])
    focus_kinds = [1, 7] if "kinds*" in shape else [1]
    focus_auth = [0, 1] if "authors*" in shape else [0]
    focus_tags = ["x", "xy"] if "tags*" in shape else ["x"]
    times = [histgen.T0 - 10 * i for i in range(1, 6)]
    for i in range(size):
        ev = evgen.make(rng.choice(focus_auth), kind=rng.choice(focus_kinds),
                        created_at=rng.choice(times) if rng.random() < 0.6 else histgen.T0 - rng.randint(1, 300),
                        tags=[["t", rng.choice(focus_tags)]] + ([["t", "xy"]] if rng.random() < 0.2 else []),
                        content="m%d" % i)
        h.events.append(ev)
        h.add(ev)
    for _ in range(rng.randint(0, 6)):
        h.add(h.regular())
    f = {}
    if "kinds" in shape:
        f["kinds"] = focus_kinds
    if "authors" in shape:
        f["authors"] = [h.pub(a) for a in focus_auth]
    if "tags" in shape:
        f["#t"] = focus_tags
    if "time" in shape:
        f["since"] = histgen.T0 - 400
        if rng.random() < 0.5:
            f["until"] = histgen.T0 - rng.choice([5, 15, 25])
    lim = rng.choice([n, n, 0, 1, ml, ml + 1, 10 ** 9, None])
    if lim is not None:
        f["limit"] = lim
    rng.shuffle(h.ops)
    h.ops.append(["sub", [f]])
    evs = h.events
    # the same conditions several times in one REQ with different limits (each filter keeps its own)
    for _ in range(rng.choice([0, 1, 1, 2])):
        g = dict(f)
        lims = [rng.choice([0, 1, 2, n, ml, None]), rng.choice([1, n + 1, ml, ml + 1, 10 ** 9, None])]
        if rng.random() < 0.3:
            lims.reverse()
        fs = []
        for lm in lims:
            g2 = dict(g)
            g2.pop("limit", None)
            if lm is not None:
                g2["limit"] = lm
            fs.append(g2)
        h.ops.append(["sub", fs])
    for _ in range(rng.randint(2, 8)):
        k = rng.choice([1, 1, 1, 2, 3, 5])
        fs = []
        for _ in range(k):
            g = histgen.wellformed_filter(rng, evs)
            c = rng.random()
            if c < 0.7:
                g["limit"] = rng.choice([0, 1, 2, ml - 1, ml, ml + 1, 10 ** 9])
            fs.append(g)
        h.ops.append(["sub", fs])
    if rng.random() < 0.12:
        # a limit on a conjunction of two tag names, where each single condition has many NEWER matches that fail
        # the other one: the limit counts results, not index hits
        pk = h.pub(1)
        m = rng.randint(1, 4)
        nlim = rng.choice([1, 2, 3, min(ml, 5)])
        both = [evgen.make(0, kind=1, created_at=histgen.T0 - 500 - i, tags=[["t", "nostr"], ["p", pk]], content="both%d" % i)
                for i in range(m)]
        only_t = [evgen.make(0, kind=1, created_at=histgen.T0 - 100 - i, tags=[["t", "nostr"]], content="t%d" % i)
                  for i in range(nlim + rng.choice([0, 1, 3]))]
        only_p = [evgen.make(2, kind=1, created_at=histgen.T0 - 200 - i, tags=[["p", pk]], content="p%d" % i)
                  for i in range(nlim + rng.choice([0, 1, 3]))]
        extra = both + only_t + only_p
        rng.shuffle(extra)
        for e in extra:
            h.events.append(e)
            h.ops.insert(0, ["add", e])
        h.ops.append(["sub", [{"#t": ["nostr"], "#p": [pk], "limit": nlim}]])
        h.ops.append(["sub", [{"#t": ["nostr"], "#p": [pk], "kinds": [1], "limit": nlim}]])
    # the relay's own queries (collector passes, look-ups by id, unlimited internal scans) run in between:
    # their limits are theirs, a client's REQ keeps its own cap whatever ran before it
    n_add = sum(1 for o in h.ops if o[0] == "add")
    for _ in range(rng.choice([0, 0, 1, 2, 3])):
        op = rng.choice([["gc"], ["query", [{"kinds": [1, 7]}]], ["query", [{"authors": [h.pub(0)]}]],
                         ["get", rng.choice(evs)["id"]] if evs else ["gc"]])
        h.ops.insert(rng.randint(n_add, len(h.ops)), op)
    return {"backend": backend, "ops": h.ops, "max_limit": ml}


def sample(case):
    return {"backend": case["backend"], "max_limit": case["max_limit"],
            "events": sum(1 for o in case["ops"] if o[0] == "add"),
            "reqs": [o[1] for o in case["ops"] if o[0] == "sub"][:4]}


def run(case, sim):
    backend = case["backend"]
    from nostr_relay.config import Config
    ml = type(Config).max_limit
    if ml != case["max_limit"]:
        raise RuntimeError("max_limit knob mismatch: process has %r, case wants %r" % (ml, case["max_limit"]))
    w = store.StoreWorld(sim, backend)

    def on_op(o):
        if o["op"][0] == "sub":
            o["store"] = w.env.dump()
    w.on_op = on_op

    async def main(_):
        return await w.run(case["ops"])
    try:
        obs = kernel.run_sim(sim, main)
    finally:
        w.env.cleanup()
    viol = []
    probes = collections.Counter()
    sigs = []
    nontrivial = False
    for o in obs:
        if o["op"][0] != "sub":
            continue
        filters = o["op"][1]
        st = o["store"]
        r = o["res"]
        if r[0] != "ok":
            viol.append({"cls": "query-error", "sig": "query-error|%s" % backend, "detail": {"res": r[:3]}})
            continue
        got = [e["id"] for e in r[1]]
        caps = []
        newest_union = set()
        tie_ok = set()
        for f in filters:
            lim = f.get("limit")
            eff = ml if lim is None else min(lim, ml)
            M = sorted((e for e in st.values() if model.matches(e, f, "inclusive")),
                       key=lambda e: -e["created_at"])
            caps.append(eff)
            if len(M) > eff:
                nontrivial = True
                probes["truncating_filters"] += 1
            sigs.append((qcommon.filter_shape(f), eff, min(len(M), eff + 2)))
        plan = qcommon.plan_label(backend, filters[0]) if len(filters) == 1 else "multi"
        shape = qcommon.filter_shape(filters[0]) if len(filters) == 1 else "n=%d" % len(filters)
        total = sum(caps)
        if len(got) > total:
            viol.append({"cls": "too-many", "sig": "too-many|%s|%s|%s" % (backend, plan, shape),
                         "detail": {"filters": filters, "returned": len(got), "allowed": total,
                                    "max_limit": ml}})
        if len(filters) > 1:
            # a filter whose matches all fit under its own limit must not be truncated by its neighbours
            gotset = set(got)
            for f, eff in zip(filters, caps):
                Mi = [e for e in st.values() if model.matches(e, f, "inclusive")]
                Ms = [e for e in st.values() if model.matches(e, f, "strict")]
                if len(Mi) > eff and eff > 0:
                    # recency per filter: whatever its neighbours add, the matches of this filter
                    # that are strictly newer than its cut-off timestamp must have been sent
                    ranked = sorted(Mi, key=lambda e: -e["created_at"])
                    cut = ranked[eff - 1]["created_at"]
                    owed = [e for e in Ms if e["created_at"] > cut]
                    lost = [e for e in owed if e["id"] not in gotset]
                    if lost:
                        viol.append({"cls": "not-newest", "sig": "not-newest|%s|multi|%s" % (backend, qcommon.filter_shape(f)),
                                     "detail": {"filters": filters, "filter": f, "limit": eff, "cutoff": cut,
                                                "omitted_newer": [(e["id"][:8], e["created_at"]) for e in lost[:4]]}})
                        break
                if len(Mi) <= eff:
                    omitted = [e for e in Ms if e["id"] not in gotset]
                    if omitted:
                        same = sum(1 for g in filters if {k: v for k, v in g.items() if k != "limit"} ==
                                   {k: v for k, v in f.items() if k != "limit"})
                        viol.append({"cls": "truncated-under-limit",
                                     "sig": "truncated-under-limit|%s|multi|%s" % (backend, "same-conditions" if same > 1 else "other"),
                                     "detail": {"filters": filters, "filter": f, "matches": len(Mi), "limit": eff,
                                                "returned": len(got), "omitted": len(omitted)}})
                        break
        if len(filters) == 1:
            f = filters[0]
            eff = caps[0]
            Mi = [e for e in st.values() if model.matches(e, f, "inclusive")]
            Ms = [e for e in st.values() if model.matches(e, f, "strict")]
            sent = [st[i] for i in set(got) if i in st]
            omitted = [e for e in Ms if e["id"] not in set(got)]
            if len(Mi) <= eff and omitted:
                viol.append({"cls": "truncated-under-limit",
                             "sig": "truncated-under-limit|%s|%s|%s" % (backend, plan, shape),
                             "detail": {"filter": f, "matches": len(Mi), "limit": eff, "returned": len(got)}})
            elif sent and omitted:
                oldest_sent = min(e["created_at"] for e in sent)
                newer = [e for e in omitted if e["created_at"] > oldest_sent]
                if newer:
                    viol.append({"cls": "not-newest", "sig": "not-newest|%s|%s|%s" % (backend, plan, shape),
                                 "detail": {"filter": f, "limit": eff, "oldest_sent": oldest_sent,
                                            "omitted_newer": [(e["id"][:8], e["created_at"]) for e in newer[:4]],
                                            "sent": sorted((e["created_at"] for e in sent), reverse=True)[:8]}})
            elif not sent and omitted and eff > 0 and len(Mi) > eff:
                viol.append({"cls": "nothing-sent", "sig": "nothing-sent|%s|%s|%s" % (backend, plan, shape),
                             "detail": {"filter": f, "limit": eff, "matches": len(Mi)}})
    seen, v2 = set(), []
    for v in viol:
        if v["sig"] not in seen:
            seen.add(v["sig"])
            v2.append(v)
    probes["backend_" + backend] = 1
    probes["max_limit_%d" % ml] = 1
    return {"violations": v2, "nontrivial": nontrivial, "probes": dict(probes),
            "signature": qcommon.h16((backend, ml, sorted(sigs)))}
