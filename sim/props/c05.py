"""
C05 -- a new event reaches exactly the matching open subscriptions, once each; live matching agrees
with stored matching.

Relay world, 2-5 connections.  The scheduler decides the arrival order of frames across
connections and the completion order of validator jobs, sqlite jobs, LMDB writer steps, pool jobs
and slow sends, so notify rounds overlap with REQ / CLOSE / replacement / disconnect.  The oracle
is interval based (see DESIGN section 4): must / may / must-not delivery sets from the instants
t_deliver and t_done of every command.
"""
import collections
import copy
import json

from .. import histgen, model, qcommon, evgen, oracles
from ..worlds import relay, store

ID = "C05"
LEVEL = "exploration"
CHUNK = 40
CHUNK_DEADLINE = 600       # (long flavours: crowds, soaks, wide events; shared machines)
BUDGET = {"quick": {"runs": 4000, "wall": 150}, "thorough": {"runs": 100000, "wall": 1200}}
RULE = ("2-5 connections x scripts of 2-12 frames over REQ (1-3 well-formed filters aimed at the event "
        "pool, fresh and reused ids), CLOSE, EVENT (distinct pool events incl. replaceable, ephemeral, "
        "deletions), barrier, disconnect; slow consumers; both back ends; every interleaving decision "
        "taken by the seeded scheduler; non-trivial = some accepted event had at least one must-receive "
        "subscription and one subscription that must not receive it; distinct = hash of (backend, "
        "delivery order of all frames, per-event recipient sets)")
COMPONENTS = {
    "real": ["BaseStorage.notify_all_connected / subscribe / unsubscribe", "BaseSubscription.notify / "
             "check_event", "web.start_client + send_subscriptions", "DBStorage.add_event", "LMDBStorage."
             "add_event + writer", "validators (executor job)"],
    "stub": ["websocket transport", "LMDB engine (fake)", "threads (actors)"],
}
ASSUMPTIONS = [
    "must-receive = subscription definitely open from before the EVENT command was delivered and never "
    "closed, replaced or disconnected afterwards (a push still queued when the subscription ends is dropped: "
    "'no closed subscription receives it', and C13's 'after CLOSE no further event is sent'), filter matching "
    "strictly inside its time window; everything not provably open or closed is 'may'",
    "filters without any condition and events matching only through a NIP-26 delegation tag are not "
    "generated here (listed known findings of C02)",
]
SHRINK = [["clients"], ["clients", "*", "script"]]


def gen(rng, knobs):
    backend = rng.choice(["sql", "lmdb"])
    h = histgen.Hist(rng, nauthors=3)
    pool = []
    for _ in range(rng.randint(3, 9)):
        c = rng.random()
        if c < 0.6:
            pool.append(h.regular(tags=[["t", rng.choice(["x", "xy", "", "é"])]] + h.some_tags(1)))
        elif c < 0.75:
            pool.append(h.replaceable())
        elif c < 0.85:
            pool.append(h.ephemeral())
        elif c < 0.92 and h.events:
            pool.append(h.deletion())
        else:
            pool.append(h.regular(created_at=histgen.T0 - rng.choice([0, 10, 20])))
    unsent = list(pool)
    rng.shuffle(unsent)
    clients = []
    n = rng.randint(2, 5)
    nid = 0
    for ci in range(n):
        script = []
        opened = []
        for _ in range(rng.randint(2, 12)):
            c = rng.random()
            if c < 0.4:
                if opened and rng.random() < 0.15:
                    sid = rng.choice(opened)
                else:
                    sid = "s%d_%d" % (ci, nid)
                    nid += 1
                    opened.append(sid)
                fs = [histgen.wellformed_filter(rng, pool, shape=rng.choice(
                    ["kinds", "authors", "authors+kinds", "tags", "time", "kinds+time", "tags+kinds",
                     "ids", "authors+time", "tags+time"])) for _ in range(rng.choice([1, 1, 1, 2, 3]))]
                for f in fs:
                    f.pop("limit", None)
                if backend == "sql" and rng.random() < 0.04:
                    # the unrestricted window (LMDB refuses to serve it: a listed finding of C02)
                    fs[rng.randrange(len(fs))] = {"since": 0}
                script.append(["send", json.dumps(["REQ", sid] + fs)])
            elif c < 0.5 and opened:
                script.append(["send", json.dumps(["CLOSE", rng.choice(opened)])])
            elif c < 0.85 and unsent:
                script.append(["send", json.dumps(["EVENT", unsent.pop()])])
                if rng.random() < 0.1:
                    script.append(script[-1])          # the same event again at once (it may still be on its way into the store)
            elif c < 0.95:
                script.append(["barrier"])
            else:
                script.append(["wait", rng.choice([0.5, 2, 30])])
        if rng.random() < 0.15:
            script.insert(rng.randint(1, len(script)), ["disconnect"])
        clients.append({"script": script, "slow": rng.random() < 0.2})
    pre = [h.regular() for _ in range(rng.randint(0, 4))]
    if rng.random() < 0.2:
        # replacement in flight: a slow reader replaces its subscription while the first stored query is still
        # running (well-filled store), and matching events are accepted right then; whatever winds down for the
        # replaced subscription must not touch what is queued for its successor
        pre = [h.regular(kind=1) for _ in range(rng.randint(6, 14))]
        authors = [k.pub for k in evgen.AUTHORS[:3]]
        f1 = rng.choice([{"kinds": [1]}, {"authors": authors}, {"kinds": [1, 7]}])
        f2 = rng.choice([{"kinds": [1]}, {"authors": authors}, {"kinds": [1], "since": histgen.T0 - 100000}])
        news = [h.regular(kind=1) for _ in range(rng.randint(1, 4))]
        first = [["send", json.dumps(["REQ", "x", f1])], ["send", json.dumps(["REQ", "x", f2])]]
        if rng.random() < 0.3:
            first.insert(1, ["send", json.dumps(["CLOSE", "x"])])
        clients = [{"script": first, "slow": rng.random() < 0.9},
                   {"script": [["send", json.dumps(["EVENT", e])] for e in news], "slow": False}]
        if rng.random() < 0.6:
            # the publisher paces itself, so that acceptances spread over the moment of the replacement (and
            # over whatever the replaced subscription still winds down afterwards)
            paced = []
            for it in clients[1]["script"]:
                paced += [["wait", rng.choice([0.01, 0.03, 0.1, 0.3, 1.0])], it]
            clients[1]["script"] = paced
        if rng.random() < 0.5:
            clients.append({"script": [["send", json.dumps(["REQ", "c", f2])]], "slow": False})
    crowd = rng.random() < 0.02
    if crowd:
        # a long process lifetime: a crowd of connections each holding one subscription, then two events
        clients = histgen.crowd(rng, h)
        news = [h.regular(kind=1), h.regular(kind=1)]
        clients.append({"script": [["barrier"]] + [["send", json.dumps(["EVENT", e])] for e in news], "late": True})
        pre = []
    stall = {}
    inflight = len(pre) >= 6
    if rng.random() < (0.85 if inflight else 0.15):
        # one residue class of SQL connections is stalled (slow disk / busy worker thread)
        m = rng.choice([2, 3, 3, 4]) if not inflight else rng.choice([3, 3, 4])
        stall = {"stall_mod": m, "stall_rem": rng.choice([0, 0, rng.randrange(m)]) if not inflight else rng.choice([0, 0, 0, 0, 1]),
                 "stall_scale": rng.choice([0.02, 0.1]) if not inflight else rng.choice([0.005, 0.02, 0.02, 0.1])}
    return {"backend": backend, "clients": clients, "preload": pre, "p_buffered": rng.choice([0.0, 0.0, 0.3, 0.8]),
            **({"step_cap": 600000} if crowd else {}),
            "storage_opts": histgen.pool_knob(rng, backend),
            "sched": {**stall, "client": rng.choice([0.3, 1.0, 3.0]), "sql": rng.choice([0.2, 1.0, 3.0]),
                      "exec": rng.choice([0.1, 1.0, 3.0]), "writer": rng.choice([0.1, 1.0, 3.0]),
                      "pool": rng.choice([0.2, 1.0, 3.0]), "wsend": rng.choice([0.2, 1.0]),
                      "ready": rng.choice([1.0, 4.0, 8.0]), "timer_near": 0.2}}


def sample(case):
    out = []
    for c in case["clients"]:
        row = []
        for it in c["script"]:
            if it[0] == "send":
                m = json.loads(it[1])
                row.append([m[0], m[1] if m[0] != "EVENT" else (m[1]["kind"], m[1]["id"][:6])] + (m[2:3] if m[0] == "REQ" else []))
            else:
                row.append(it)
        out.append(row[:6])
    return {"backend": case["backend"], "clients": out}


def parse(text):
    try:
        return json.loads(text)
    except Exception:
        return None


INF = 10 ** 12


def run(case, sim):
    backend = case["backend"]
    w = relay.RelayWorld(sim, backend, case["clients"], preload=case.get("preload"), p_buffered=case.get("p_buffered", 0.0),
                         storage_opts=case.get("storage_opts"))
    stored_answers = {}

    async def at_quiescence(world):
        # the same filters queried afterwards (agreement clause)
        st = world.env.storage
        seen = set()
        for c in case["clients"]:
            for it in c["script"]:
                if it[0] != "send":
                    continue
                m = parse(it[1])
                if isinstance(m, list) and m and m[0] == "REQ" and len(m) == 3:
                    key = json.dumps(m[2], sort_keys=True)
                    if key in seen:
                        continue
                    seen.add(key)
                    out = []
                    try:
                        async for e in st.run_single_query([copy.deepcopy(m[2])]):
                            out.append(e.id)
                        stored_answers[key] = set(out)
                    except Exception:
                        pass
    w.at_quiescence = at_quiescence
    w.run()
    viol = []
    probes = collections.Counter()
    alive = w.final.get("alive", {})
    final = w.final["dump"]

    # ---- events -------------------------------------------------------------------------
    events = {}
    times_submitted = collections.Counter()
    for c in w.clients:
        oks = [(s, parse(t)) for s, t in c.transcript]
        oks = [(s, m) for s, m in oks if isinstance(m, list) and m and m[0] == "OK"]
        for fr in c.frames:
            m = parse(fr["text"])
            if isinstance(m, list) and len(m) >= 2 and m[0] == "EVENT" and isinstance(m[1], dict):
                hi = fr["t_done"] if fr["t_done"] is not None else INF
                mine = [k for s, k in oks if fr["t_deliver"] <= s <= hi]
                ok = mine[0][2] if mine and len(mine[0]) > 2 else None
                events[m[1]["id"]] = {"ev": m[1], "t0": fr["t_deliver"], "t1": hi, "ok": ok, "c": c.idx}
                times_submitted[m[1]["id"]] += 1
    resubmitted = {}
    for eid, n in times_submitted.items():
        if n > 1:
            resubmitted[eid] = events.pop(eid)        # the OK side of resubmissions is C06's business; here only
            #                                           "exactly once": see the clause after the main loop
    # ---- subscription incarnations ------------------------------------------------------
    subs = []
    for c in w.clients:
        tx = [(s, parse(t)) for s, t in c.transcript]
        notices = [s for s, m in tx if isinstance(m, list) and m and m[0] == "NOTICE"]
        ctl = []
        for fr in c.frames:
            m = parse(fr["text"])
            if isinstance(m, list) and len(m) >= 2 and m[0] in ("REQ", "CLOSE") and isinstance(m[1], str):
                ctl.append((fr, m))
        t_dis = getattr(c, "t_disconnect", INF) if not alive.get(c.idx, False) else INF
        if c.closed is not None:
            t_dis = min(t_dis, min((s for s, t in c.transcript if t.startswith("__CLOSE__")), default=INF))
        for i, (fr, m) in enumerate(ctl):
            if m[0] != "REQ":
                continue
            hi = fr["t_done"] if fr["t_done"] is not None else INF
            refused = any(fr["t_deliver"] <= s <= hi for s in notices)
            end_lo, end_hi = INF, INF
            for fr2, m2 in ctl[i + 1:]:
                if m2[1] == m[1]:
                    end_lo = fr2["t_deliver"]
                    end_hi = fr2["t_done"] if fr2["t_done"] is not None else INF
                    break
            end_lo = min(end_lo, t_dis)
            end_hi = min(end_hi, t_dis) if t_dis < INF else end_hi
            eose = [s for s, mm in tx if isinstance(mm, list) and len(mm) == 2 and mm[0] == "EOSE"
                    and mm[1] == m[1] and s >= fr["t_deliver"]]
            n_same = sum(1 for fr2, m2 in ctl if m2[0] == "REQ" and m2[1] == m[1])
            if n_same > 1:
                # id reuse: EOSE frames cannot be attributed to an incarnation (a cancelled one may
                # still emit its own); assume the stored query was in flight as long as possible
                all_eose = [s for s, mm in tx if isinstance(mm, list) and len(mm) == 2 and mm[0] == "EOSE"
                            and mm[1] == m[1]]
                eose = [max(all_eose)] if len(all_eose) >= n_same else []
            subs.append({"c": c.idx, "id": m[1], "filters": [f for f in m[2:] if isinstance(f, dict)],
                         "reg_lo": fr["t_deliver"], "reg_hi": hi, "end_lo": end_lo, "end_hi": end_hi,
                         "refused": refused, "eose": eose[0] if eose else INF,
                         "alive": alive.get(c.idx, False)})
    # pushes: (conn, sub id, event id) -> list of seqs
    pushes = collections.defaultdict(list)
    for c in w.clients:
        for s, t in c.transcript:
            m = parse(t)
            if isinstance(m, list) and len(m) == 3 and m[0] == "EVENT" and isinstance(m[2], dict):
                pushes[(c.idx, m[1], m[2].get("id"))].append(s)
    # ---- bounds per (connection, sub id, event) ---------------------------------------------
    recipients = {}
    nontrivial = False
    for eid, E in events.items():
        if E["ok"] is not True:
            continue
        ev = E["ev"]
        groups = collections.defaultdict(list)
        for S in subs:
            groups[(S["c"], S["id"])].append(S)
        had_must = had_mustnot = False
        rec = []
        for (cidx, sid), incs in groups.items():
            lo = hi = 0
            why = []
            for S in incs:
                if S["refused"]:
                    continue
                k_incl = sum(1 for f in S["filters"] if model.matches(ev, f, "inclusive", bare_as_empty=True))
                k_strict = sum(1 for f in S["filters"] if model.matches(ev, f, "strict"))
                if k_incl == 0:
                    why.append("nomatch")
                    continue
                if E["t1"] < S["reg_lo"]:
                    # fully handled before the REQ was delivered: only as a stored result
                    hi += k_incl
                    why.append("stored-only")
                    continue
                if E["t0"] > S["end_hi"]:
                    why.append("after-end")
                    continue
                # (a subscription that is closed or replaced later may lose a push that was still queued for
                #  it: after CLOSE nothing more is sent for it - C13 - so only one that stays open is owed it)
                definitely = S["reg_hi"] <= E["t0"] and S["end_lo"] == INF and S["alive"] and k_strict > 0
                if definitely:
                    lo += 1
                    hi += 1 + (k_incl if S["eose"] > E["t0"] else 0)
                    why.append("must")
                else:
                    hi += 1 + k_incl
                    why.append("may")
            n = len(pushes.get((cidx, sid, eid), []))
            if lo > 0:
                had_must = True
                rec.append((cidx, sid))
            if hi == 0:
                had_mustnot = True
            base = "%s|%s" % (backend, "eph" if model.is_ephemeral(ev["kind"]) else "reg")
            if n < lo:
                viol.append({"cls": "not-delivered", "sig": "not-delivered|%s|%s" % (base, "+".join(sorted(set(
                    qcommon.filter_shape(f) for S in incs for f in S["filters"] if model.matches(ev, f, "strict"))))[:60]),
                             "detail": {"event": oracles.brief(ev), "conn": cidx, "sub": sid, "got": n, "need": lo,
                                        "filters": [S["filters"] for S in incs][:2], "why": why}})
            elif n > hi:
                viol.append({"cls": "over-delivered" if hi > 0 else "wrongly-delivered",
                             "sig": "%s|%s|%s" % ("over-delivered" if hi > 0 else "wrongly-delivered", base,
                                                  "+".join(sorted(set(why)))),
                             "detail": {"event": oracles.brief(ev), "conn": cidx, "sub": sid, "got": n, "max": hi,
                                        "filters": [S["filters"] for S in incs][:2], "why": why}})
        if had_must and had_mustnot:
            nontrivial = True
        recipients[eid[:6]] = sorted(rec)
        probes["accepted_events"] += 1
    # an id submitted several times is still one event: a subscription whose stored query had ended before the
    # first submission gets it at most once per time it really entered the store
    first_sub = {}
    for c in w.clients:
        for fr in c.frames:
            m = parse(fr["text"])
            if isinstance(m, list) and len(m) >= 2 and m[0] == "EVENT" and isinstance(m[1], dict) and m[1].get("id") in resubmitted:
                first_sub[m[1]["id"]] = min(first_sub.get(m[1]["id"], INF), fr["t_deliver"])
    for eid, E in resubmitted.items():
        ev = E["ev"]
        if not model.wellformed(ev) or model.is_ephemeral(ev.get("kind", 1)):
            continue
        inserted, prev = 0, False
        for _seq, d in w.env.states:
            now_in = eid in d
            if now_in and not prev:
                inserted += 1
            prev = now_in
        for S in subs:
            same_id = [x for x in subs if x["c"] == S["c"] and x["id"] == S["id"]]
            if len(same_id) != 1 or S["refused"] or S["eose"] >= first_sub.get(eid, 0):
                continue
            n = len(pushes.get((S["c"], S["id"], eid), []))
            if n > max(1, inserted):
                viol.append({"cls": "over-delivered", "sig": "over-delivered|%s|resubmitted|stored=%d" % (backend, inserted),
                             "detail": {"event": oracles.brief(ev), "conn": S["c"], "sub": S["id"], "got": n,
                                        "times_stored": inserted, "submissions": times_submitted[eid]}})
                break
    # stored results only before EOSE for events fully handled before the REQ
    for S in subs:
        for eid, E in events.items():
            if E["ok"] is True and E["t1"] < S["reg_lo"] and S["eose"] < INF:
                later = [s for s in pushes.get((S["c"], S["id"], eid), []) if s > S["eose"]]
                same_id = [x for x in subs if x["c"] == S["c"] and x["id"] == S["id"]]
                if later and len(same_id) == 1:
                    viol.append({"cls": "old-event-after-eose", "sig": "old-event-after-eose|" + backend,
                                 "detail": {"event": oracles.brief(E["ev"]), "sub": S["id"]}})
    # ---- agreement: live matching == stored matching ---------------------------------------
    for S in subs:
        if S["refused"] or len(S["filters"]) != 1 or not S["alive"]:
            continue
        f = S["filters"][0]
        key = json.dumps(f, sort_keys=True)
        if key not in stored_answers:
            continue
        same_id = [x for x in subs if x["c"] == S["c"] and x["id"] == S["id"]]
        if len(same_id) != 1:
            continue
        for eid, E in events.items():
            ev = E["ev"]
            if E["ok"] is not True or model.is_ephemeral(ev["kind"]) or eid not in final:
                continue
            if not (S["reg_hi"] <= E["t0"] and S["end_lo"] == INF):
                continue        # (observed pushes stand for the live matcher only while nothing can drop them)
            if model.matches(ev, f, "inclusive") != model.matches(ev, f, "strict"):
                continue        # boundary timestamps excepted
            if model.matches(ev, f, "strict") != model.matches(ev, f, "inclusive", bare_as_empty=True):
                continue        # a bare ["d"] read as "" or not (also combined with a boundary timestamp)
            live = len([s for s in pushes.get((S["c"], S["id"], eid), []) if s > 0]) > 0
            stored = eid in stored_answers[key]
            probes["agreement_pairs"] += 1
            if live != stored:
                viol.append({"cls": "live-stored-disagree",
                             "sig": "live-stored-disagree|%s|%s|%s" % (backend, "live-only" if live else "stored-only",
                                                                       qcommon.filter_shape(f)),
                             "detail": {"event": oracles.brief(ev), "tags": ev["tags"][:4], "filter": f,
                                        "live": live, "stored": stored,
                                        "model": model.matches(ev, f, "strict")}})
    for c in w.clients:
        if not c.finished or c.exc:
            viol.append({"cls": "handler-stuck-or-raised", "sig": "handler-stuck-or-raised|" + backend,
                         "detail": {"client": c.idx, "exc": c.exc}})
    seen, v2 = set(), []
    for v in viol:
        if v["sig"] not in seen:
            seen.add(v["sig"])
            v2.append(v)
    probes["backend_" + backend] = 1
    probes["subscriptions"] = len(subs)
    deliveries = sorted((f["t_deliver"], c.idx) for c in w.clients for f in c.frames)
    return {"violations": v2, "nontrivial": nontrivial, "probes": dict(probes),
            "signature": qcommon.h16((backend, [d[1] for d in deliveries], sorted(recipients.items())))}
