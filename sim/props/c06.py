"""
C06 -- OK acknowledgements agree with what the relay actually did.

Relay world, fault-free, both back ends: submitting connections plus an observer connection with a
catch-all subscription; the store is judged at quiescence (LMDB writer idle, all jobs done).
"""
import collections
import copy
import json

from .. import histgen, model, qcommon, evgen, oracles
from ..worlds import relay

ID = "C06"
LEVEL = "exploration"
CHUNK = 40
BUDGET = {"quick": {"runs": 2500, "wall": 150}, "thorough": {"runs": 100000, "wall": 1200}}
RULE = ("1-2 submitting connections x 4-16 EVENT frames: valid events (regular, replaceable chains, "
        "deletions, ephemeral), byte-identical resubmissions, invalid ones (bad signature, id not the "
        "hash, mutated fields, wrong types, missing fields), tag values of 0-600 bytes, created_at / kind "
        "at 0, 2^31, 2^32-1, 2^32, 2^63, negative; one observer connection subscribed to everything; "
        "both back ends, fault-free; non-trivial = at least one OK=true and one OK=false; distinct = hash "
        "of (backend, per-frame event class, OK pattern)")
COMPONENTS = {
    "real": ["web.start_client EVENT branch", "DBStorage.add_event", "LMDBStorage.add_event + WriterThread",
             "validators.is_signed (executor job)", "notify_all_connected / BaseSubscription.notify"],
    "stub": ["websocket transport", "LMDB engine (fake)", "threads (actors)"],
}
ASSUMPTIONS = ["'the integer range the relay accepts': events with created_at >= 2^32, kind >= 2^16 or "
               "negative values may be refused, but the OK must agree with what happened; created_at = 0 "
               "is outside that range too (the event library replaces a zero timestamp by 'now')",
               "a resubmission may be broadcast again when the event was not durably stored during the whole "
               "handling of the resubmission (e.g. it had been deleted in between)",
               "an accepted event may be absent at quiescence when a later accepted event of the same "
               "address (same or newer timestamp) or a later accepted kind-5 of its author referencing it "
               "exists"]
SHRINK = [["clients"], ["clients", "*", "script"]]


def classify(ev):
    if not isinstance(ev, dict):
        return "not-object"
    if not model.wellformed(ev) or set(ev) != {"id", "pubkey", "created_at", "kind", "tags", "content", "sig"}:
        return "malformed"
    ok, why = model.authentic(ev)
    if not ok:
        return "unauthentic:" + why.split(" ")[0]
    if ev["created_at"] >= 2 ** 32 or ev["kind"] >= 2 ** 16 or ev["created_at"] == 0:
        return "out-of-range"
    if any(len(x.encode("utf-8", "surrogatepass")) > 400 for t in ev["tags"] for x in t[1:2]):
        return "valid-longtag"
    return "valid"


def gen_shutdown(rng):
    """acknowledged, then an orderly shutdown before the background writer got to it, then a restart: what was
    answered OK=true is retrievable afterwards"""
    backend = rng.choice(["lmdb", "lmdb", "sql"])
    h = histgen.Hist(rng, nauthors=2)
    for _ in range(rng.randint(1, 6)):
        c = rng.random()
        h.add(h.regular() if c < 0.6 else (h.replaceable() if c < 0.85 else h.ephemeral()))
        if rng.random() < 0.2:
            h.ops.append(["settle"])
    if rng.random() < 0.5:
        # several addresses of one author and kind (different d values), versions arriving out of order: all of
        # them were acknowledged and none supersedes another address
        a, k = rng.choice([0, 1]), rng.choice([30000, 30023, 39999])
        for dv, t in rng.sample([("a", 10), ("b", 20), ("a", 5), ("", 15), ("ab", 30)], rng.randint(2, 4)):
            h.add(h.replaceable(author=a, kind=k, d=dv, created_at=histgen.T0 - 100 + t))
    h.ops.append(rng.choice([["restart_now"], ["restart_now"], ["restart"]]))
    for _ in range(rng.randint(0, 2)):
        h.add(h.regular())
    h.ops.append(["settle"])
    return {"mode": "shutdown", "backend": backend, "ops": h.ops}


def run_shutdown(case, sim):
    from ..worlds import store
    w, obs = store.run_store(sim, case["backend"], case["ops"], settle_each=False)
    viol = []
    acked = []
    final = None
    for o in obs:
        if o["op"][0] == "add" and o.get("res", [None])[0] == "ok" and o["res"][1]:
            acked.append(o["op"][1])
        if o["op"][0] in ("restart_now", "restart"):
            final = o.get("post")
            must = list(acked)
            for e in must:
                if model.is_ephemeral(e["kind"]):
                    continue
                a = model.address(e)
                superseded = a is not None and any(model.address(x) == a and x["created_at"] >= e["created_at"] and x is not e
                                                   for x in must)
                if e["id"] not in (final or {}) and not superseded:
                    viol.append({"cls": "acked-but-lost", "sig": "acked-but-lost|%s|shutdown" % case["backend"],
                                 "detail": {"event": oracles.brief(e), "acknowledged_before_shutdown": len(must),
                                            "stored_after_restart": len(final or {})}})
                    break
    return {"violations": viol[:1], "nontrivial": bool(acked), "probes": {"mode_shutdown": 1, "backend_" + case["backend"]: 1},
            "signature": qcommon.h16(("shutdown", case["backend"], [o[0] for o in case["ops"]]))}


def gen(rng, knobs):
    if rng.random() < 0.08:
        return gen_shutdown(rng)
    backend = rng.choice(["sql", "lmdb"])
    h = histgen.Hist(rng, nauthors=3)
    clients = []
    subs = [["send", json.dumps(["REQ", "all", {"authors": [k.pub for k in evgen.KEYS]}])], ["barrier"]]
    clients.append({"script": subs})
    sent = []
    good = []
    for ci in range(rng.randint(1, 2)):
        script = [["barrier"]]
        bad = 0       # every refused event doubles the relay's throttle sleep: keep it bounded
        for _ in range(rng.randint(4, 16)):
            c = rng.random()
            if c >= 0.65 and bad >= 5:
                c = rng.random() * 0.65
            if c >= 0.65:
                bad += 1
            if c < 0.30:
                ev = h.regular()
            elif c < 0.42:
                ev = h.replaceable()
            elif c < 0.50 and h.events:
                ev = h.deletion()
                if rng.random() < 0.35:
                    # NIP-01-valid deletions whose e tags are not all usable references
                    extra = rng.choice([[["e", "not-a-hex-id"]], [["e"]], [["e", "abc"]], [["e", ""]],
                                        [["e", ev["tags"][0][1].upper()]] if ev["tags"] else [["e"]]])
                    tags = [t for t in ev["tags"]]
                    tags.insert(rng.randint(0, len(tags)), extra[0])
                    h.events.pop()
                    ev = evgen.make([k.pub for k in evgen.AUTHORS].index(ev["pubkey"]), kind=5,
                                    created_at=ev["created_at"], tags=tags, content="del")
                    h.events.append(ev)
            elif c < 0.55:
                ev = h.ephemeral()
            elif c < 0.65 and good:
                ev = copy.deepcopy(rng.choice(good))          # byte-identical resubmission (of a valid one)
            elif c < 0.75:
                # extremes of the integer range and long tags (validly signed)
                m = rng.random()
                if m < 0.5:
                    ev = evgen.make(rng.choice(h.authors), kind=rng.choice([1, 65535, 65536, 2 ** 31, 2 ** 32 - 1, 2 ** 32]),
                                    created_at=rng.choice([0, 1, 2 ** 31 - 1, 2 ** 31, 2 ** 32 - 1, 2 ** 32, 2 ** 63 - 1, -1, -2 ** 31]),
                                    tags=[], content="x")
                else:
                    ev = evgen.make(rng.choice(h.authors), kind=1, created_at=histgen.T0 - 5,
                                    tags=[[rng.choice(["t", "r", "title"]), "v" * rng.choice([0, 1, 100, 400, 460, 470, 480, 500, 600])]],
                                    content="long")
                h.events.append(ev)
            else:
                base = h.regular()
                h.events.pop()
                ev = copy.deepcopy(base)
                m = rng.random()
                if m < 0.15:
                    ev["sig"] = ev["sig"][:-2] + ("00" if ev["sig"][-2:] != "00" else "01")
                elif m < 0.30:
                    ev["id"] = "ab" * 32
                elif m < 0.40:
                    ev["content"] = ev["content"] + "!"
                elif m < 0.50:
                    ev["created_at"] = str(ev["created_at"])
                elif m < 0.58:
                    ev["kind"] = float(ev["kind"])
                elif m < 0.66:
                    del ev[rng.choice(["sig", "id", "pubkey", "tags", "content", "created_at", "kind"])]
                elif m < 0.72:
                    ev["id"] = ev["id"].upper()
                elif m < 0.80:
                    ev["tags"] = rng.choice([[[]], "x", [["t"]], [[5, 5]], None, [["t", "a", 5]]])
                elif m < 0.88:
                    ev["extra"] = 1
                elif m < 0.94:
                    ev = rng.choice(["x", 5, None, [], [ev]])
                else:
                    ev["content"] = 5
            sent.append(ev)
            if c < 0.55:
                good.append(ev)
            script.append(["send", json.dumps(["EVENT", ev])])
            if rng.random() < 0.15:
                script.append(["barrier"])
        if rng.random() < 0.25:
            # a deletion replayed around its target: D names N. Sent as D,N,D or N,D,N,D - the replayed D is a
            # duplicate (changes nothing), and the N accepted after D stays (the relay keeps no memory of D)
            a = rng.choice(h.authors)
            n_ev = h.regular(author=a, created_at=histgen.T0 - rng.choice([30, 40]))
            d_ev = h.deletion(author=a, targets=[n_ev["id"]], created_at=histgen.T0 - rng.choice([5, 10]))
            seq = rng.choice([[d_ev, n_ev, d_ev], [n_ev, d_ev, n_ev, d_ev], [d_ev, n_ev, d_ev, d_ev]])
            at = rng.randint(1, len(script))
            script[at:at] = [["send", json.dumps(["EVENT", e])] for e in seq]
        clients.append({"script": script})
    if rng.random() < 0.2:
        # the same fresh events presented on two connections at the same moment: stored once, acknowledged as
        # new at most ... well, broadcast once
        twins = [h.regular() for _ in range(rng.randint(1, 3))]
        while len(clients) < 3:
            clients.append({"script": [["barrier"]]})
        for cl in clients[1:3]:
            head = [["send", json.dumps(["EVENT", e])] for e in rng.sample(twins, len(twins))]
            cl["script"][1:1] = head
    return {"backend": backend, "clients": clients,
            "storage_opts": histgen.pool_knob(rng, backend),
            "sched": {**histgen.stall_knob(rng), "client": rng.choice([0.5, 1.0, 3.0]), "sql": rng.choice([0.3, 1.0, 3.0]),
                      "exec": rng.choice([0.2, 1.0, 3.0]), "writer": rng.choice([0.2, 1.0, 3.0]),
                      "ready": rng.choice([1.0, 4.0, 8.0])}}


def sample(case):
    if case.get("mode") == "shutdown":
        return {"mode": "shutdown", "backend": case["backend"], "ops": [o[0] for o in case["ops"]]}
    out = []
    for c in case["clients"][1:]:
        for it in c["script"]:
            if it[0] == "send":
                ev = json.loads(it[1])[1]
                out.append(classify(ev) + (":k%s" % ev.get("kind") if isinstance(ev, dict) else ""))
    return {"backend": case["backend"], "submissions": out[:20]}


def parse(text):
    try:
        return json.loads(text)
    except Exception:
        return None


def run(case, sim):
    if case.get("mode") == "shutdown":
        return run_shutdown(case, sim)
    backend = case["backend"]
    w = relay.RelayWorld(sim, backend, case["clients"], storage_opts=case.get("storage_opts")).run()
    viol = []
    probes = collections.Counter()
    final = w.final["dump"]
    states = w.env.states
    # every event pushed to anybody
    pushed = collections.Counter()
    for c in w.clients:
        for seq, text in c.transcript:
            m = parse(text)
            if isinstance(m, list) and len(m) == 3 and m[0] == "EVENT" and isinstance(m[2], dict):
                pushed[(c.idx, m[2].get("id"))] += 1
    observer = w.clients[0]
    subs = []     # chronological submissions
    for c in w.clients[1:]:
        oks = [(seq, parse(t)) for seq, t in c.transcript]
        oks = [(s, m) for s, m in oks if isinstance(m, list) and m and m[0] == "OK"]
        for fr in c.frames:
            m = parse(fr["text"])
            if not (isinstance(m, list) and len(m) >= 2 and m[0] == "EVENT"):
                continue
            hi = fr["t_done"] if fr["t_done"] is not None else 10 ** 12
            mine = [(s, k) for s, k in oks if fr["t_deliver"] <= s <= hi]
            ev = m[1]
            cls = classify(ev)
            if len(mine) != 1:
                viol.append({"cls": "ok-count", "sig": "ok-count|%s|%s|n=%d" % (backend, cls.split(":")[0], len(mine)),
                             "detail": {"event_class": cls, "oks": [k for s, k in mine][:3]}})
                continue
            ok = mine[0][1]
            res = ok[2] if len(ok) > 2 else None
            reason = ok[3] if len(ok) > 3 and isinstance(ok[3], str) else ""
            subs.append({"c": c.idx, "ev": ev, "cls": cls, "ok": res, "reason": reason, "ok_id": ok[1] if len(ok) > 1 else None,
                         "t0": fr["t_deliver"], "t1": hi, "t_ok": mine[0][0]})
    subs.sort(key=lambda s: s["t0"])
    accepted_ids = {s["ev"]["id"] for s in subs if s["ok"] is True and isinstance(s["ev"], dict) and isinstance(s["ev"].get("id"), str)}
    # (a submission without an id field is stored under the id the relay computes: take the ids
    #  the relay acknowledged, not only the ones that were submitted)
    for c in w.clients[1:]:
        for seq, t in c.transcript:
            m = parse(t)
            if isinstance(m, list) and len(m) == 4 and m[0] == "OK" and m[2] is True and isinstance(m[1], str):
                accepted_ids.add(m[1])
    acc_subs = [s for s in subs if s["ok"] is True and isinstance(s["ev"], dict)]
    n_true = n_false = 0
    for s in subs:
        ev, cls = s["ev"], s["cls"]
        eid = ev.get("id") if isinstance(ev, dict) else None
        base = "%s|%s" % (backend, cls.split(" ")[0])
        if s["ok"] is True:
            n_true += 1
            if not isinstance(eid, str):
                continue
            if cls.startswith("unauthentic") or cls in ("malformed", "not-object"):
                probes["accepted_" + cls.split(":")[0]] += 1      # C03's business, tallied only
            stored = eid.lower() in final or eid in final
            if stored:
                continue
            if isinstance(ev.get("kind"), int) and model.is_ephemeral(ev["kind"]):
                obs_ready = [f for f in observer.frames if f["t_done"] is not None and f["t_done"] < s["t0"]
                             and f["text"].startswith('["REQ"')]
                if pushed[(observer.idx, eid)] == 0 and model.authentic(ev)[0] and obs_ready \
                        and w.final.get("alive", {}).get(observer.idx):
                    viol.append({"cls": "ephemeral-not-broadcast", "sig": "ephemeral-not-broadcast|" + backend,
                                 "detail": {"event": oracles.brief(ev)}})
                continue
            # superseded or deleted by a later/other accepted event?
            excused = False
            try:
                a = model.address(ev)
                for osub in acc_subs:
                    o = osub["ev"]
                    if o is ev or o.get("id") == eid:
                        continue
                    try:
                        if a is not None and model.address(o) == a and o["created_at"] >= ev["created_at"]:
                            excused = True
                        if o["kind"] == 5 and o["pubkey"] == ev["pubkey"] and any(
                                t[0] == "e" and len(t) > 1 and t[1] == eid for t in o["tags"]) \
                                and osub["t1"] >= s["t0"]:
                            # (a deletion whose handling was over before this submission began cannot have
                            #  removed it: the relay keeps no memory of deletions)
                            excused = True
                    except Exception:
                        continue
            except Exception:
                pass
            if not excused:
                viol.append({"cls": "acked-but-lost", "sig": "acked-but-lost|%s" % base,
                             "detail": {"event": oracles.brief(ev) if model.wellformed(ev) else str(ev)[:200],
                                        "created_at": ev.get("created_at"), "kind": ev.get("kind"),
                                        "taglens": [len(x) for t in ev.get("tags", []) if isinstance(t, list) for x in t[1:2] if isinstance(x, str)]}})
        elif s["ok"] is False:
            n_false += 1
            dup = s["reason"].startswith("duplicate")
            if cls == "valid" and not dup and not s["reason"].startswith("rate-limited"):
                viol.append({"cls": "valid-refused", "sig": "valid-refused|%s|%s" % (base, s["reason"][:24]),
                             "detail": {"event": oracles.brief(ev), "reason": s["reason"]}})
            if cls == "valid-longtag" and not dup:
                viol.append({"cls": "valid-refused", "sig": "valid-refused|%s|longtag" % backend,
                             "detail": {"event": oracles.brief(ev), "reason": s["reason"],
                                        "taglens": [len(x) for t in ev["tags"] for x in t[1:2]]}})
            if isinstance(eid, str) and not dup and eid not in accepted_ids and eid.lower() not in accepted_ids:
                # no trace: not in any durable state after the OK, never pushed
                for seq, d in states:
                    if seq > s["t_ok"] and (eid in d or eid.lower() in d):
                        viol.append({"cls": "refused-but-stored", "sig": "refused-but-stored|%s" % base,
                                     "detail": {"event": str(ev)[:200], "reason": s["reason"]}})
                        break
                if eid in final:
                    viol.append({"cls": "refused-but-stored", "sig": "refused-but-stored|%s" % base,
                                 "detail": {"event": str(ev)[:200], "reason": s["reason"]}})
                if any(pushed[(c.idx, eid)] for c in w.clients):
                    viol.append({"cls": "refused-but-broadcast", "sig": "refused-but-broadcast|%s" % base,
                                 "detail": {"event": str(ev)[:200], "reason": s["reason"]}})
            if dup and isinstance(eid, str):
                earlier = any(o is not s and o["t0"] < s["t1"] and isinstance(o["ev"], dict)
                              and (o["ev"].get("id") == eid or (o["ok"] is True and o.get("ok_id") == eid)) for o in subs)
                if not earlier:
                    viol.append({"cls": "duplicate-without-original", "sig": "duplicate-without-original|" + backend,
                                 "detail": {"event": str(ev)[:200]}})
        else:
            viol.append({"cls": "ok-shape", "sig": "ok-shape|" + backend, "detail": {"class": cls}})
    # resubmissions: an id is pushed to the observer at most once per *accepting* submission;
    # a byte-identical resubmission of a stored event must not be pushed again
    by_id = collections.defaultdict(list)
    for s in subs:
        if isinstance(s["ev"], dict) and isinstance(s["ev"].get("id"), str):
            by_id[s["ev"]["id"]].append(s)
        elif isinstance(s["ev"], dict) and "id" not in s["ev"] and s["ok"] is True and isinstance(s.get("ok_id"), str):
            # submitted without an id field: the relay computes the id itself and says so in its OK
            by_id[s["ok_id"]].append(s)
    for eid, lst in by_id.items():
        n_push = pushed[(observer.idx, eid)]
        if len(lst) > 1:
            probes["resubmitted_ids"] += 1
        ev0 = lst[0]["ev"]
        eph = isinstance(ev0.get("kind"), int) and model.is_ephemeral(ev0["kind"])
        noid = lambda e: json.dumps({k: v for k, v in e.items() if k != "id"}, sort_keys=True)
        same = all(noid(x["ev"]) == noid(ev0) for x in lst)
        def stored_throughout(t0, t1):
            sts = w.env.states_between(t0, t1)
            return bool(sts) and all(eid in d for d in sts)
        # an id is pushed once per time it really entered the store (absent -> present in the history of
        # durable states), however many submissions raced for that; at least once for an accepted one
        inserted, prev = 0, False
        for _seq, d in states:
            now_in = eid in d
            if now_in and not prev:
                inserted += 1
            prev = now_in
        allowed = max(1, inserted)
        if not eph and n_push > allowed:
            viol.append({"cls": "rebroadcast", "sig": "rebroadcast|%s" % backend,
                         "detail": {"event": oracles.brief(ev0) if model.wellformed(ev0) else eid[:8],
                                    "submissions": len(lst), "pushes": n_push,
                                    "oks": [x["ok"] for x in lst]}})
    for c in w.clients:
        if not c.finished or c.exc:
            viol.append({"cls": "handler-stuck-or-raised", "sig": "handler-stuck-or-raised|" + backend,
                         "detail": {"client": c.idx, "exc": c.exc}})
    seen, v2 = set(), []
    for v in viol:
        if v["sig"] not in seen:
            seen.add(v["sig"])
            v2.append(v)
    probes["backend_" + backend] = 1
    probes["ok_true"] = n_true
    probes["ok_false"] = n_false
    return {"violations": v2, "nontrivial": n_true > 0 and n_false > 0, "probes": dict(probes),
            "signature": qcommon.h16((backend, [(s["cls"], s["ok"]) for s in subs]))}
