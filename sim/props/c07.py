"""
C07 -- all effects of an event are applied atomically, even across crashes and engine errors.

Store world, both back ends.  For every sampled history the fault points are ENUMERATED:
every engine call (SQL: each execute/executemany/commit; LMDB: each put/delete/commit of the
writer task) of every operation gets (a) an injected engine error and (b) a process kill
followed by reopening the durable state.
"""
import copy
import hashlib
import json
import os
import shutil
import sqlite3

from .. import kernel, histgen, seams
from ..worlds import store, env as envmod

ID = "C07"
LEVEL = "fault_enumeration"
LEVEL_TEXT = ("for each sampled history every engine call of every operation is hit by an injected "
              "error and by a process kill + reopen; the store image must equal the state before or "
              "after that operation and later operations must reach their fault-free outcome. "
              "Exhaustive per history over fault points, sampled over histories")
TECHNIQUE = "deterministic simulation, enumerated fault points (engine error / kill+reopen) per history"
CHUNK = 3
CHUNK_DEADLINE = 300
BUDGET = {"quick": {"runs": 150, "wall": 150}, "thorough": {"runs": 6000, "wall": 1200}}
RULE = ("histories of 3-8 operations (adds incl. replaceable chains, multi-target kind-5 deletions, "
        "many-tag events, GC passes, API deletes) on SQL-file and LMDB; per history all (operation, "
        "k-th engine call) points x {error, kill+reopen}; evaluations = fault points exercised; "
        "non-trivial = the fault landed inside a transaction with >=2 mutating calls; distinct = "
        "hash of (backend, op kinds, calls per op)")
COMPONENTS = {
    "real": ["storage.db.DBStorage.add_event/pre_save/post_save/process_tags", "QueryGarbageCollector",
             "storage.kv.WriterThread.run/_post_save/_delete_event", "KVGarbageCollector",
             "SQLAlchemy + sqlite3 C engine (file DB, WAL)", "msgpack (pure Python)"],
    "stub": ["LMDB engine (sim/fakes/lmdb)", "aiosqlite worker thread (inlined actor)",
             "writer thread (stepped cooperatively)", "validator executor (inline job)"],
}
ASSUMPTIONS = [
    "process kill = the database, -wal and -shm files as they are on disk at that instant "
    "(no torn page / power-loss model)",
    "LMDB kill = last committed snapshot of the fake engine",
    "an engine error may make the operation fail or lose it, never apply part of it",
]
SHRINK = [["ops"]]
SHRINK_BUDGET = 120

SQL_ERRORS = ["disk I/O error", "database or disk is full", "database is locked"]


def chunk_knobs(seed, c):
    return {}


def gen(rng, knobs):
    backend = rng.choice(["sql", "lmdb"])
    h = histgen.Hist(rng, nauthors=3)
    n = rng.randint(3, 8)
    for _ in range(n):
        c = rng.random()
        if c < 0.30:
            h.add(h.replaceable())
        elif c < 0.45 and h.events:
            h.add(h.deletion())
        elif c < 0.55:
            # many tags, some multi-valued
            tags = [[rng.choice(["t", "p", "e", "g"]), rng.choice(histgen.TAG_VALS[:6]) or "v"]
                    for _ in range(rng.randint(4, 9))]
            h.add(h.regular(tags=tags))
        elif c < 0.62:
            h.add(h.expiring(str(histgen.T0 - rng.choice([5, 50]))))
        elif c < 0.68:
            h.add(h.ephemeral())
        elif c < 0.76:
            h.ops.append(["gc"])
        elif c < 0.80 and h.events:
            h.ops.append(["del", rng.choice(h.events)["id"]])
        else:
            h.add(h.regular())
    # end with something that has many effects
    c = rng.random()
    if c < 0.4:
        base = h.replaceable(kind=rng.choice([0, 3, 10000]), author=0, created_at=histgen.T0 - 30)
        h.add(base)
        h.add(h.replaceable(kind=base["kind"], author=0, created_at=histgen.T0 - 20))
        h.add(h.replaceable(kind=base["kind"], author=0, created_at=histgen.T0 - 5))
    elif c < 0.8 and h.events:
        own = [e for e in h.events if e["pubkey"] == h.pub(0)]
        if len(own) >= 2:
            h.add(h.deletion(author=0, targets=[e["id"] for e in own[:4]], created_at=histgen.T0))
    # swarm knob: with a single insert slot / reader slot one leaked slot already wedges the storage
    opts = {}
    if backend == "sql":
        opts = {"num_concurrent_adds": rng.choice([1, 1, 2, 4]), "num_concurrent_reqs": rng.choice([1, 2, 10])}
    return {"backend": backend, "ops": h.ops, "errseed": rng.randrange(1 << 30), "storage_opts": opts,
            "max_points": knobs.get("max_points", 120)}


def sample(case):
    return {"backend": case["backend"],
            "ops": [[o[0], (o[1]["kind"], o[1]["created_at"], [t[0] for t in o[1]["tags"]])
                     if o[0] == "add" else o[1:]] for o in case["ops"]]}


def simplify(case, v):
    f = (v.get("detail") or {}).get("fault")
    if f and case.get("only") != f:
        c = copy.deepcopy(case)
        c["only"] = f
        yield c


# ---------------------------------------------------------------------------------------------

class HistRun:
    """one execution of a history with an optional fault plan"""

    def __init__(self, outer, backend, ops, faults=None, images=False, keep=(), resume=None):
        self.keep = set(keep)          # (i, k) crash images to keep on disk for a resumed run
        self.kept = {}
        self.resume = resume           # directory of a kept crash image to start from
        self.storage_opts = dict(getattr(outer, "c07_storage_opts", {}))
        self.outer = outer
        self.backend = backend
        self.ops = ops
        self.faults = faults or {}     # (i, k) -> kind
        self.images = images
        self.img = {}                  # (i, k) -> full dump of the crash image
        self.calls = {}                # i -> engine calls
        self.call_names = {}           # i -> [names]
        self.hang = None

    def go(self):
        outer = self.outer
        sim = kernel.Sim(outer.ch, seed_str="inner", profile=outer.profile, step_cap=outer.step_cap)
        self.sim = sim
        w = store.StoreWorld(sim, self.backend, track_states=True, full_states=True,
                             storage_opts=dict(self.storage_opts))
        self.world = w
        envx = w.env
        cur = {"i": None, "k": 0}
        tmpd = os.path.join(envx.dir, "img")

        if self.backend == "sql":
            def on_call(op, k, name, sql):
                i = int(op.split("#")[1])
                self.calls[i] = k + 1
                self.call_names.setdefault(i, []).append(name)
                if self.images:
                    p = seams.sqlite_image(envx.dbpath, tmpd)
                    self.img[(i, k)] = envmod.dump_sqlite(p, full=True)
                    if (i, k) in self.keep:
                        # kept (the original, un-recovered files) for a run that restarts from it
                        keepd = "/dev/shm/nrsim-c07img-%d-%d-%d-%d" % (os.getpid(), id(self) % 100000, i, k)
                        shutil.rmtree(keepd, ignore_errors=True)
                        seams.sqlite_image(envx.dbpath, keepd)
                        self.kept[(i, k)] = keepd
                    shutil.rmtree(tmpd, ignore_errors=True)
            sim.sql.on_call = on_call
            for (i, k), kind in self.faults.items():
                label = "%s#%d" % (self.ops[i][0], i)
                if kind.startswith("after:"):
                    sim.sql.fault_plan[(label, k)] = ("error_after", kind[6:])
                else:
                    sim.sql.fault_plan[(label, k)] = ("error", kind)
        else:
            import lmdb

            def hook(op, env, txn, key):
                if op in ("get", "seek"):
                    return
                i = cur["i"]
                if i is None:
                    return
                k = cur["k"]
                cur["k"] += 1
                self.calls[i] = k + 1
                self.call_names.setdefault(i, []).append(op)
                kind = self.faults.get((i, k))
                if kind:
                    sim.faults["lmdb_error"] += 1
                    cls = {"mapfull": lmdb.MapFullError, "disk": lmdb.DiskError}.get(kind, lmdb.Error)
                    raise cls("injected %s at %s#%d call %d" % (kind, op, i, k))

        if self.resume:
            # process restart on the files a killed process left behind
            for f in os.listdir(self.resume):
                shutil.copyfile(os.path.join(self.resume, f), os.path.join(envx.dir, f))

        async def main(_):
            await envx.open()
            if self.backend == "lmdb":
                import lmdb
                lmdb.FAULT_HOOK = hook
            await w.settle()
            try:
                for i, op in enumerate(self.ops):
                    cur["i"] = i
                    cur["k"] = 0
                    try:
                        o = await asyncio_wait_for(w.do(i, op), 3600)
                    except TimeoutError:
                        self.hang = i
                        w.obs.append({"i": i, "op": op, "res": ["hang"], "post": envx.dump(full=True)})
                        break
                    o["post"] = envx.dump(full=True)
                    w.obs.append(o)
                cur["i"] = None
            finally:
                if self.hang is None:
                    await envx.close()
            return w.obs

        try:
            self.obs = kernel.run_sim(sim, main)
        finally:
            envx.cleanup()
        self.states = envx.states
        outer.note("inner", sim.log.digest())
        outer.steps += sim.steps
        outer.faults.update(sim.faults)
        for k, v in sim.action_counts.items():
            outer.action_counts[k] += v
        return self


async def asyncio_wait_for(coro, t):
    import asyncio
    return await asyncio.wait_for(coro, t)


def canon(d):
    ev, other = d
    return (json.dumps(ev, sort_keys=True, default=str), tuple(sorted(map(repr, other))))


def whole_event_subset(state, pre_state, post_state, backend):
    """for operations that remove several events (a GC pass, an API delete): every durable state
    must be the pre-state minus some WHOLE events (record together with all its tag rows / index
    keys); each removal is atomic, the pass as a whole need not be"""
    ev, other = state
    pev, pother = pre_state
    qev, _ = post_state
    if not (set(qev) <= set(ev) <= set(pev)):
        return False
    if any(ev[i] != pev[i] for i in ev):
        return False
    gone = set(pev) - set(ev)
    if backend == "sql":
        want = {r for r in pother if r[0] not in gone}
    else:
        gone_b = {bytes.fromhex(g) for g in gone}
        want = {k for k in pother if not (len(k) >= 32 and k[-32:] in gone_b)}
    return set(other) == want


def run(case, sim):
    backend = case["backend"]
    ops = case["ops"]
    sim.c07_storage_opts = case.get("storage_opts", {})
    viol = []
    probes = {"fault_points": 0, "kill_points": 0, "multi_effect_points": 0, "state_pre": 0,
              "state_post": 0, "state_partial_pass": 0, "resumed_from_crash_image": 0, "commit_boundaries": 0, "backend_" + backend: 1}

    import random as _random
    krng = _random.Random(case["errseed"] + 1)
    keep = []
    if backend == "sql" and not case.get("only"):
        for _ in range(3):
            keep.append((krng.randrange(len(ops)), krng.randrange(0, 8)))
    ref = HistRun(sim, backend, ops, images=True, keep=keep).go()
    if ref.hang is not None:
        return {"violations": [{"cls": "hang-faultfree", "sig": "hang-faultfree|%s" % backend,
                                "detail": {"op": ref.hang}}], "probes": probes}
    post = {o["i"]: canon(o["post"]) for o in ref.obs}
    empty = canon(({}, set()))

    def pre_of(i, run=ref):
        if i == 0:
            return run.base
        return canon(run.obs[i - 1]["post"])

    raw_base = ref.states[0][1] if (backend == "lmdb" and ref.states) else ({}, set())

    def atomic_ok(i, state):
        """state (raw full dump) is a legal durable state while operation i is being applied"""
        c = canon(state)
        if c == pre_of(i) or c == post[i]:
            return True
        if ops[i][0] in ("gc", "del"):
            raw_pre = ref.obs[i - 1]["post"] if i > 0 else raw_base
            return whole_event_subset(state, raw_pre, ref.obs[i]["post"], backend)
        return False

    # base state: dump right after open -- recompute cheaply from the first commit record
    ref.base = canon(ref.states[0][1]) if (backend == "lmdb" and ref.states) else empty
    if backend == "sql":
        ref.base = canon(({}, set()))

    # mutating calls per op (non-trivial = fault inside a multi-effect transaction)
    def mutating(i):
        names = ref.call_names.get(i, [])
        if backend == "sql":
            return max(0, len([n for n in names if n in ("execute", "executemany")]) - 1)
        return len([n for n in names if n in ("put", "delete")])

    # (b) kill + reopen at every engine call (SQL images) and every commit boundary (both)
    for (i, k), img in sorted(ref.img.items()):
        probes["kill_points"] += 1
        if not atomic_ok(i, img):
            viol.append({"cls": "kill-intermediate", "sig": "kill-intermediate|%s|%s" % (backend, ops[i][0]),
                         "detail": {"fault": [i, k, "kill"], "op": ops[i][0],
                                    "calls": ref.call_names.get(i)}})
            break
    stamps = [(o["t0"], o["t1"], o["i"]) for o in ref.obs]
    for seq, d in ref.states:
        for t0, t1, i in stamps:
            if t0 < seq <= t1:
                probes["commit_boundaries"] += 1
                if not atomic_ok(i, d):
                    viol.append({"cls": "commit-intermediate",
                                 "sig": "commit-intermediate|%s|%s" % (backend, ops[i][0]),
                                 "detail": {"fault": [i, -1, "kill"], "op": ops[i][0]}})
                break

    # (b') restart on a kept crash image and carry on with the rest of the history
    without = {}
    for (i, k), d in sorted(ref.kept.items()):
        try:
            c0 = canon(ref.img[(i, k)])
            if c0 == post[i]:
                rest, exp_final = ops[i + 1:], canon(ref.obs[-1]["post"])
            elif c0 == pre_of(i):
                if i not in without:
                    wo = HistRun(sim, backend, ops[:i] + ops[i + 1:]).go()
                    wo.base = ref.base
                    without[i] = wo
                rest = ops[i + 1:]
                exp_final = canon(without[i].obs[-1]["post"]) if without[i].obs else ref.base
            else:
                continue          # already reported as kill-intermediate
            if ops[i][0] in ("gc", "del") or not rest:
                continue
            probes["resumed_from_crash_image"] += 1
            r = HistRun(sim, backend, rest, resume=d).go()
            if r.hang is not None:
                viol.append({"cls": "stuck-after-restart", "sig": "stuck-after-restart|%s|%s" % (backend, ops[i][0]),
                             "detail": {"fault": [i, k, "kill"], "stuck_op": r.hang}})
            elif canon(r.obs[-1]["post"]) != exp_final:
                viol.append({"cls": "diverges-after-restart", "sig": "diverges-after-restart|%s|%s" % (backend, ops[i][0]),
                             "detail": {"fault": [i, k, "kill"], "results": [o.get("res", [None])[:2] for o in r.obs][:6]}})
        finally:
            shutil.rmtree(d, ignore_errors=True)
    # (a) injected errors
    import random
    erng = random.Random(case["errseed"])
    points = []
    for i in range(len(ops)):
        names = ref.call_names.get(i, [])
        for k, name in enumerate(names):
            if backend == "sql":
                if name == "commit":
                    points.append((i, k, erng.choice(SQL_ERRORS[:2])))
                    points.append((i, k, "after:disk I/O error"))
                else:
                    points.append((i, k, erng.choice(SQL_ERRORS)))
            else:
                kind = {"put": erng.choice(["mapfull", "error"]), "delete": "error",
                        "commit": erng.choice(["disk", "mapfull"])}[name]
                points.append((i, k, kind))
    if case.get("only"):
        only = tuple(case["only"])
        points = [p for p in points if (p[0], p[1]) == (only[0], only[1]) and (only[2] == "kill" or p[2] == only[2])]
    elif len(points) > case.get("max_points", 120):
        erng.shuffle(points)
        points = sorted(points[: case.get("max_points", 120)])
    for (i, k, kind) in points:
        probes["fault_points"] += 1
        if mutating(i) >= 2:
            probes["multi_effect_points"] += 1
        r = HistRun(sim, backend, ops, faults={(i, k): kind}).go()
        r.base = ref.base
        got = canon(r.obs[i]["post"]) if len(r.obs) > i else None
        fault = [i, k, kind]
        if r.hang is not None and r.hang <= i:
            viol.append({"cls": "op-stuck", "sig": "op-stuck|%s|%s" % (backend, ops[i][0]),
                         "detail": {"fault": fault, "stuck_op": r.hang}})
            continue
        if got == post[i]:
            probes["state_post"] += 1
            exp = ref
            shift = 0
        elif got == pre_of(i):
            probes["state_pre"] += 1
            if i not in without:
                wo = HistRun(sim, backend, ops[:i] + ops[i + 1:]).go()
                wo.base = ref.base
                without[i] = wo
            exp = without[i]
            shift = 1
            # "a failure while applying one event does not prevent later events from being applied" - the same
            # event submitted again is such a later event: the retry reaches the fault-free outcome
            if ops[i][0] == "add" and r.hang is None and erng.random() < 0.35:
                probes["retries_after_failure"] = probes.get("retries_after_failure", 0) + 1
                r2 = HistRun(sim, backend, ops[:i + 1] + [ops[i]] + ops[i + 1:], faults={(i, k): kind}).go()
                if r2.hang is not None:
                    viol.append({"cls": "retry-stuck", "sig": "retry-stuck|%s|%s" % (backend, ref.call_names[i][k]),
                                 "detail": {"fault": fault, "stuck_op": r2.hang}})
                elif len(r2.obs) > i + 1 and canon(r2.obs[i + 1]["post"]) != post[i]:
                    viol.append({"cls": "retry-not-applied",
                                 "sig": "retry-not-applied|%s|%s" % (backend, ref.call_names[i][k]),
                                 "detail": {"fault": fault, "first": r2.obs[i].get("res"), "retry": r2.obs[i + 1].get("res")}})
                else:
                    for j in range(i + 1, len(ops)):
                        if len(r2.obs) <= j + 1:
                            break
                        if canon(r2.obs[j + 1]["post"]) != post[j]:
                            viol.append({"cls": "later-op-deviates",
                                         "sig": "later-op-deviates|%s|retry>%s" % (backend, ops[j][0]),
                                         "detail": {"fault": fault, "later_op": j, "res": r2.obs[j + 1].get("res")}})
                            break
        elif atomic_ok(i, r.obs[i]["post"]):
            # a multi-event pass (GC / API delete) stopped half way: whole events only; what the
            # later operations then do depends on which ones went, so only liveness is judged
            probes["state_partial_pass"] += 1
            if r.hang is not None:
                viol.append({"cls": "later-op-stuck", "sig": "later-op-stuck|%s|%s" % (backend, ops[i][0]),
                             "detail": {"fault": fault, "stuck_op": r.hang}})
            continue
        else:
            a_ev, a_o = r.obs[i]["post"]
            viol.append({"cls": "error-intermediate",
                         "sig": "error-intermediate|%s|%s|%s" % (backend, ops[i][0], ref.call_names[i][k]),
                         "detail": {"fault": fault, "op": ops[i][0], "calls": ref.call_names.get(i),
                                    "res": r.obs[i].get("res"),
                                    "events_after": sorted(a_ev), "events_pre": sorted(json.loads(pre_of(i)[0])),
                                    "events_post": sorted(json.loads(post[i][0]))}})
            continue
        # later operations reach their fault-free outcome
        for j in range(i + 1, len(ops)):
            if r.hang is not None and r.hang == j:
                viol.append({"cls": "later-op-stuck", "sig": "later-op-stuck|%s|%s" % (backend, ops[i][0]),
                             "detail": {"fault": fault, "stuck_op": j, "stuck_kind": ops[j][0]}})
                break
            if len(r.obs) <= j:
                break
            want = canon(exp.obs[j - shift]["post"])
            if canon(r.obs[j]["post"]) != want:
                viol.append({"cls": "later-op-deviates",
                             "sig": "later-op-deviates|%s|%s>%s" % (backend, ops[i][0], ops[j][0]),
                             "detail": {"fault": fault, "later_op": j, "res": r.obs[j].get("res"),
                                        "want_res": exp.obs[j - shift].get("res")}})
                break
    seen = set()
    v2 = []
    for v in viol:
        if v["sig"] not in seen:
            seen.add(v["sig"])
            v2.append(v)
    shape = (backend, tuple(o[0] for o in ops), tuple(sorted((i, len(n)) for i, n in ref.call_names.items())))
    return {"violations": v2, "probes": probes,
            "signature": hashlib.sha256(repr(shape).encode()).hexdigest()[:16],
            "nontrivial": probes["multi_effect_points"] > 0}


def evidence_extra(agg):
    p = agg["probes"]
    return {
        "histories": agg["evaluations"],
        "evaluations": int(p.get("fault_points", 0) + p.get("kill_points", 0) + p.get("commit_boundaries", 0)),
        "exhaustive_per_history": True,
    }
