"""
C02 -- a REQ returns every matching stored event exactly once when under its limit.

Store world, both back ends: collision-prone stores, filters drawn so that every planner
outcome occurs (ids, created_at, kinds, authors, author+kind, tags, chained multi-index) and
every SQL clause; deciding comparison on a quiescent store, through both the subscription path
(REQ) and run_single_query; multi-filter REQs judged by multiplicity bounds.
"""
import collections

from .. import histgen, model, qcommon, evgen

T0 = histgen.T0
from ..worlds import store

ID = "C02"
LEVEL = "exploration"
CHUNK = 40
CHUNK_DEADLINE = 600       # (long flavours: crowds, soaks, wide events; shared machines)
BUDGET = {"quick": {"runs": 3000, "wall": 150}, "thorough": {"runs": 150000, "wall": 1200}}
RULE = ("stores of 1-30 colliding events (prefix-related tag values, shared timestamps, kinds sharing "
        "bytes, delegations) then 6-16 queries: single well-formed filters of every shape (ids, kinds, "
        "authors, tags, time windows and their conjunctions, single and multiple values) and 1-5 filter "
        "REQs, via subscribe (REQ path) and run_single_query, on SQL-file and LMDB; non-trivial = a "
        "query had at least one expected event; distinct = hash of (backend, plan class, filter shape, "
        "expected count)")
COMPONENTS = {
    "real": ["kv.planner / executor / execute_one_plan / matcher / all Index.scanner", "MultiIndex",
             "db.Subscription.build_query/evaluate_filter + SQLite", "BaseStorage.subscribe", "NostrQuery"],
    "stub": ["LMDB engine (fake)", "query thread pool (deferred-inline jobs)", "aiosqlite thread (actor)"],
}
ASSUMPTIONS = ["events with created_at equal to since/until may be returned or not",
               "only filters with at least one condition besides limit are generated in most runs; the "
               "bare {} / {limit:n} / {since:0} filter is a listed known finding (deliberate no-range-scan policy)"]
SHRINK = [["ops"], ["ops", "*", 1]]


def gen(rng, knobs):
    backend = rng.choice(["sql", "lmdb"])
    h = qcommon.collide_store(rng)
    if rng.random() < 0.3 and h.events:
        # some history: a deletion and a replacement so that the store is not just inserts
        h.add(h.deletion())
        h.add(h.replaceable())
    evs = [e for e in h.events]
    nq = rng.randint(6, 16)
    for _ in range(nq):
        c = rng.random()
        if c < 0.75:
            f = tight(rng, evs, histgen.wellformed_filter(rng, evs, allow_limit=True))
            h.ops.append([rng.choice(["sub", "query"]), [f]])
        elif c < 0.97:
            fs = [tight(rng, evs, histgen.wellformed_filter(rng, evs)) for _ in range(rng.randint(2, 5))]
            if rng.random() < 0.3:
                # the same conditions twice with different limits: each filter keeps its own limit
                g = dict(rng.choice(fs))
                g.pop("limit", None)
                small = dict(g, limit=rng.choice([0, 1, 2]))
                fs = [small, g] if rng.random() < 0.7 else [g, small]
                if rng.random() < 0.5:
                    fs.append(histgen.wellformed_filter(rng, evs))
            h.ops.append([rng.choice(["sub", "sub", "query"]), fs])
        else:
            h.ops.append(["sub", [rng.choice([{}, {"limit": 100}, {"since": 0}])]])
    if rng.random() < 0.05:
        # a large result streamed while matching events are added and one is deleted
        n = rng.randint(110, 230)
        big = [h.regular(author=i % 2, kind=9999, tags=[], created_at=T0 - 9000 + i) for i in range(n)]
        for e in big:
            h.add(e)
        victim = big[-1 - rng.randrange(3)]
        writes = [h.regular(author=0, kind=9999, tags=[], created_at=T0 - 10 + i) for i in range(rng.randint(1, 2))]
        writes.append(h.deletion(author=[k.pub for k in evgen.AUTHORS].index(victim["pubkey"]), targets=[victim["id"]],
                                 created_at=T0 - 1))
        rng.shuffle(writes)
        h.ops.append(["csub", [{"kinds": [9999]}], writes])
    step_cap = None
    if rng.random() < 0.05:
        step_cap = 600000
        # wide shapes: conditions listing hundreds of values, events carrying hundreds of tags, results of a few
        # hundred rows - all far below the effective limit
        n = rng.choice([70, 130, 260])
        wide = [h.regular(author=i % 3, kind=rng.choice([1, 7]), tags=[["t", "w%d" % i]], created_at=T0 - 20000 + i)
                for i in range(n)]
        many_tags = h.regular(author=0, kind=1, tags=[["t", "m%d" % i] for i in range(rng.choice([40, 130, 300]))],
                              created_at=T0 - 30000)
        for e in wide + [many_tags]:
            h.add(e)
        pick = rng.sample(wide, min(len(wide), rng.choice([64, 100, 128, 200, 256, 500])))
        h.ops.append(["sub", [{"ids": [e["id"] for e in pick]}]])
        h.ops.append(["sub", [{"#t": [e["tags"][0][1] for e in pick]}]])
        h.ops.append(["sub", [{"#t": [many_tags["tags"][-1][1]]}]])
        h.ops.append(["sub", [{"#t": [many_tags["tags"][len(many_tags["tags"]) // 2][1], "nope"]}]])
        h.ops.append(["sub", [{"kinds": [1, 7], "since": T0 - 20001, "until": T0 - 20000 + n}]])
        h.ops.append(["query", [{"authors": [h.pub(0), h.pub(1), h.pub(2)], "kinds": [1, 7], "since": T0 - 20001}]])
    for _ in range(rng.choice([0, 0, 1])):
        h.ops.insert(rng.randint(0, len(h.ops)), ["restart"])          # the relay restarts somewhere in the history
    out = {"backend": backend, "ops": h.ops}
    if step_cap:
        out["step_cap"] = step_cap
    return out


def tight(rng, evs, f):
    """sometimes give the filter a limit equal to (or just above) its number of matches"""
    if rng.random() < 0.3:
        n = sum(1 for e in evs if model.matches(e, f))
        f["limit"] = n + rng.choice([0, 0, 1, 3])
    return f


def sample(case):
    return {"backend": case["backend"], "events": sum(1 for o in case["ops"] if o[0] == "add"),
            "queries": [o[1] for o in case["ops"] if o[0] in ("sub", "query")][:6]}


def check(obs, backend, max_limit):
    viol = []
    probes = collections.Counter()
    sigs = set()
    nontrivial = False
    for o in obs:
        kind = o["op"][0]
        if kind == "add" and backend == "sql" and "post_full" in o and o.get("res", [None])[0] == "ok":
            # every single-letter tag with a string value is a way to find the event: it has its row
            E = o["op"][1]
            ev_now, rows = o["post_full"]
            if E["id"] in ev_now:
                have = {(n, v) for i, n, v in rows if i == E["id"]}
                want = {(t[0], t[1]) for t in E["tags"] if len(t) >= 2 and isinstance(t[0], str) and isinstance(t[1], str)
                        and len(t[0]) == 1 and t[0].isascii() and t[0].isalpha()}
                lost = sorted(want - have)
                if lost:
                    viol.append({"cls": "missing", "sig": "missing|sql|tag-row|%s" % ("many-tags" if len(want) > 50 else "few-tags"),
                                 "detail": {"event": E["id"][:8], "indexable_tags": len(want), "rows": len(have),
                                            "lost": lost[:3]}})
            continue
        if kind == "csub" and "post" in o and o["res"][0] == "ok":
            # the stored query overlapped with writes: what was stored before it started and stayed stored in
            # every durable state until it ended is owed, exactly once (no limit in these filters)
            f = o["op"][1][0]
            states = [o["pre"]] + list(o.get("during", [])) + [o["post"]]
            owed = [i for i, e in o["pre"].items() if all(i in d for d in states) and model.matches(e, f, "strict")]
            got = collections.Counter(e["id"] for e in o["res"][1])
            probes["concurrent_queries"] += 1
            nontrivial = True
            miss = [i for i in owed if got[i] == 0]
            if miss:
                viol.append({"cls": "missing", "sig": "missing|%s|concurrent-writes|%s" % (backend, qcommon.filter_shape(f)),
                             "detail": {"filter": f, "owed": len(owed), "missing": [m[:8] for m in miss[:5]],
                                        "returned": len(o["res"][1]), "writes": o.get("writes")}})
            dup = [i for i in o["pre"] if got[i] > 1]
            if dup:
                viol.append({"cls": "duplicate", "sig": "duplicate|%s|concurrent-writes|%s" % (backend, qcommon.filter_shape(f)),
                             "detail": {"filter": f, "id": dup[0][:8], "times": got[dup[0]]}})
            continue
        if kind not in ("sub", "query"):
            continue
        filters = o["op"][1]
        store_now = o["store"]
        r = o["res"]
        if r[0] != "ok":
            viol.append({"cls": "query-error", "sig": "query-error|%s|%s" % (backend, r[1]),
                         "detail": {"filters": filters, "res": r[:3]}})
            continue
        got = collections.Counter(e["id"] for e in r[1])
        per_filter = []
        for f in filters:
            lim = f.get("limit", max_limit)
            lim = min(lim, max_limit) if kind == "sub" else lim
            S = {i for i, e in store_now.items() if model.matches(e, f, "inclusive")}
            Ss = {i for i, e in store_now.items() if model.matches(e, f, "strict")}
            per_filter.append((f, lim, S, Ss))
        for f, lim, S, Ss in per_filter:
            plan = qcommon.plan_label(backend, f)
            shape = qcommon.filter_shape(f)
            probes["plan_" + plan] += 1
            if S:
                nontrivial = True
            sigs.add((plan, shape, min(len(S), 3)))
            if len(S) > lim:
                probes["over_limit_skipped"] += 1
                continue
            missing = sorted(i for i in Ss if got[i] == 0)
            if missing:
                cond = [k for k in f if k != "limit" and not (k == "since" and f[k] == 0)]
                # events that match only through their NIP-26 delegator are reported separately
                direct = [i for i in missing if model.matches(store_now[i], f, "strict", delegation=False)]
                cls = "missing" if direct else "missing-delegated"
                missing = direct or missing
                viol.append({
                    "cls": cls,
                    "sig": "%s|%s|%s|%s|%s" % (cls, backend, kind if len(filters) == 1 else "multi",
                                               plan, shape if cond else "nocondition"),
                    "detail": {"filter": f, "expected": len(Ss), "missing": [m[:8] for m in missing[:5]],
                               "returned": len(r[1]), "n_filters": len(filters)}})
        # multiplicity: an event appears at most once per filter that (inclusively) matches it
        for i, n in got.items():
            k = sum(1 for f, lim, S, Ss in per_filter if i in S)
            if n > max(k, 1):
                f0 = per_filter[0][0]
                viol.append({
                    "cls": "duplicate",
                    "sig": "duplicate|%s|%s|%s" % (backend, qcommon.plan_label(backend, f0) if len(filters) == 1 else "multi",
                                                   qcommon.filter_shape(f0) if len(filters) == 1 else "n=%d" % len(filters)),
                    "detail": {"filters": filters, "id": i[:8], "times": n, "matching_filters": k}})
                break
    return viol, probes, sigs, nontrivial


def run(case, sim):
    backend = case["backend"]
    w = store.StoreWorld(sim, backend, track_states=True, full_gc=(backend == "sql"))
    cur = {}

    def on_op(o):
        if o["op"][0] in ("sub", "query"):
            o["store"] = w.env.dump()

    w.on_op = on_op
    from .. import kernel

    async def main(_):
        return await w.run(case["ops"])

    try:
        obs = kernel.run_sim(sim, main)
    finally:
        w.env.cleanup()
    from nostr_relay.config import Config
    max_limit = type(Config).max_limit
    viol, probes, sigs, nontrivial = check(obs, backend, max_limit)
    from .. import oracles
    viol += oracles.restart_changes(obs, backend)
    seen, v2 = set(), []
    for v in viol:
        if v["sig"] not in seen:
            seen.add(v["sig"])
            v2.append(v)
    probes["backend_" + backend] = 1
    return {"violations": v2, "nontrivial": nontrivial, "probes": dict(probes),
            "signature": qcommon.h16((backend, sorted(sigs)))}
