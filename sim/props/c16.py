"""
C16 -- configured admission policies are applied to every event, fail-closed.

Part 1 (this module, Relay world): random validator pipelines x events at, just inside and just
outside each bound, under the virtual clock; recording wrappers prove that every configured
validator ran, in order, before the event was stored or broadcast; refused events leave no trace;
dynamic allow/deny lists are refreshed by the real ListBuilder from stored list events.
Part 2 (sim/props/c16 'lists' mode): the refresh interleaved at bytecode granularity with
validations running on real parked threads (see worlds/lists.py).
"""
import collections
import copy
import hashlib
import json

from .. import histgen, model, qcommon, evgen, recval
from ..worlds import relay

ID = "C16"
LEVEL = "exploration"
CHUNK = 40
BUDGET = {"quick": {"runs": 4000, "wall": 150}, "thorough": {"runs": 100000, "wall": 1200}}
RULE = ("pipelines = random subsets/orders of {is_not_too_large, is_signed, is_recent, is_certain_kind, "
        "is_author_whitelisted, is_author_blacklisted, is_pow, is_not_hellthread, is_service_event, "
        "dynamic_lists.is_pubkey_allowed} (is_signed always present) with random bounds; per run 4-14 "
        "events at / just inside / just outside each bound (content length, age and future skew under the "
        "virtual clock, leading zero bits of mined ids, p-tag counts, kinds, authors, service kind by a "
        "foreign author, allow/deny-listed authors); lists world: 40% of the runs with a list refresh "
        "pre-empted at every bytecode boundary against 1-3 validations on parked threads; both back ends; "
        "non-trivial = some event was refused by a non-signature validator and some event was admitted; "
        "distinct = hash of (backend, pipeline, per-event expected decision)")
COMPONENTS = {
    "real": ["validators.* (all)", "validators.get_validator (executor job)", "dynamic_lists.is_pubkey_allowed",
             "dynamic_lists.ListBuilder.run_once/start", "add_event on both back ends",
             "time.time() seam in validators.py"],
    "stub": ["websocket transport", "default executor (inline job; real parked threads in lists mode)",
             "LMDB engine (fake)", "verification.is_nip05_verified is NOT covered (needs nostr_bot, absent)"],
}
ASSUMPTIONS = ["documented bounds: content length <= max_event_size; age <= oldest_event and not more than "
               "3600 s in the future; kind in valid_kinds; pubkey in/not in the static lists; leading zero "
               "bits >= require_pow; for kinds 1 and 7 at most hellthread_limit p tags; kind 31494 only by "
               "the service key; dynamic lists as in docs/dynamic_lists.md",
               "validators run in configured order and stop at the first refusal"]
SHRINK = [["clients", "*", "script"], ["pipeline"], ["validators"]]

V = "nostr_relay.validators."
ALL = [V + "is_not_too_large", V + "is_recent", V + "is_certain_kind", V + "is_author_whitelisted",
       V + "is_author_blacklisted", V + "is_pow", V + "is_not_hellthread", V + "is_service_event",
       "nostr_relay.dynamic_lists.is_pubkey_allowed"]


def mine(rng, key, bits, kind=1, created_at=None, tags=None, content="pow"):
    """event whose id has at least `bits` leading zero bits (and usually not many more)"""
    base = {"pubkey": evgen.AUTHORS[key].pub, "created_at": created_at if created_at is not None else histgen.T0 - 5,
            "kind": kind, "tags": tags or [], "content": content}
    n = rng.randrange(1 << 30)
    while True:
        base["content"] = "%s-%d" % (content, n)
        i = model.canon_id(base)
        lz = 256 - int(i, 16).bit_length()
        if lz >= bits and (bits == 0 or lz <= bits + 1):
            ev = dict(base)
            ev["id"] = i
            ev["sig"] = evgen.AUTHORS[key].sign(bytes.fromhex(i))
            return ev
        n += 1


def gen_lists(rng):
    """lists mode: a refresh pre-empted at bytecode boundaries by validations on real threads"""
    backend = rng.choice(["sql", "lmdb"])
    keys = [0, 1, 2]
    a0 = rng.sample(keys, rng.randint(1, 2))
    turn = rng.choice(["same", "overlap", "disjoint", "disjoint"])
    if turn == "same":
        a1 = list(a0)
    elif turn == "disjoint":
        rest = [k for k in keys if k not in a0]
        a1 = rng.sample(rest, rng.randint(1, len(rest)))      # complete turnover of the list
    else:
        a1 = rng.sample(keys, rng.randint(1, 2))
    vals = [rng.choice([0, 1, 2, 3, 3, 3]) for _ in range(rng.randint(1, 3))]     # 3 = never listed
    return {"mode": "lists", "backend": backend, "allow0": a0, "allow1": a1, "validators": vals,
            "whitelist": rng.random() < 0.3, "service_key": rng.random() < 0.4,
            # two scheduling styles: fine-grained random stepping, and "start a validation at a random
            # bytecode boundary of the refresh and let it run almost undisturbed" (few pre-emptions,
            # which is how rare windows are usually hit)
            # and a third: every validation placed at a boundary drawn uniformly over the refresh
            "weights": ({"main": rng.choice([1.0, 3.0, 8.0]), "start": rng.choice([0.05, 0.2, 1.0]),
                         "val": rng.choice([0.3, 1.0, 3.0])} if rng.random() < 0.35 else
                        {"main": 1.0, "start": rng.choice([0.01, 0.02, 0.04]), "val": rng.choice([20.0, 60.0])}
                        if rng.random() < 0.45 else
                        {"main": 1.0, "start": 0.0, "val": 1.0, "at": [rng.randint(1, 260) for _ in range(3)]}
                        if rng.random() < 0.6 else {"main": 1.0, "start": 0.0, "val": 1.0, "sweep": True}),
            "step_cap": 60000}


def run_lists(case, sim):
    import asyncio
    from ..worlds import store, lists as lw
    from .. import kernel
    backend = case["backend"]
    svc = evgen.KEYS[4]          # the curator whose kind-3 list defines the allow list
    cfg = {"dynamic_lists": {"check_interval": 7200, "allow_list_queries": [{"kinds": [3], "authors": [svc.pub]}]}}
    if case.get("service_key", True):
        cfg["service_privatekey"] = evgen.SERVICE_SK     # its pubkey is then always on the list
    if case.get("whitelist"):
        cfg["pubkey_whitelist"] = [evgen.AUTHORS[2].pub]
    w = store.StoreWorld(sim, backend, cfg=cfg)
    out = {}

    async def main(_):
        from nostr_relay import dynamic_lists as dl
        from nostr_relay.config import Config
        await w.env.open()
        await w.settle()
        try:
            st = w.env.storage
            ev0 = evgen.make(svc, kind=3, created_at=histgen.T0 - 100,
                             tags=[["p", evgen.AUTHORS[k].pub] for k in case["allow0"]], content="")
            await st.add_event(ev0)
            await w.settle()
            lb = dl.ListBuilder()
            await lb.run_once()
            before = {b.hex() for b in dl.ALLOWED_PUBKEYS}
            ev1 = evgen.make(svc, kind=3, created_at=histgen.T0 - 50,
                             tags=[["p", evgen.AUTHORS[k].pub] for k in case["allow1"]], content="")
            await st.add_event(ev1)
            await w.settle()
            pubs = [evgen.AUTHORS[k].pub if k < 3 else evgen.KEYS[4].pub if False else "ee" * 32 for k in case["validators"]]
            vals = [lw.Validator(i, pk, dl.is_pubkey_allowed, Config) for i, pk in enumerate(pubs)]
            if case["weights"].get("sweep"):
                vals = []
                pubs = sorted(set(pubs) | {"ee" * 32})
            with lw.Interleaver(sim, dl.ListBuilder.run_once.__code__, dl.is_pubkey_allowed.__code__,
                                vals, case["weights"],
                                factory=lambda i: lw.Validator(i, pubs[i % len(pubs)], dl.is_pubkey_allowed, Config)) as il:
                await lb.run_once()
                il.finish()
            after = {b.hex() for b in dl.ALLOWED_PUBKEYS}
            # a further refresh with nothing changed: the list keeps its contents
            await lb.run_once()
            out["after3"] = {b.hex() for b in dl.ALLOWED_PUBKEYS}
            static = set()
            if case.get("service_key", True):
                static.add(evgen.SERVICE.pub)
            if case.get("whitelist"):
                static.add(evgen.AUTHORS[2].pub)
            out["want_before"] = static | {evgen.AUTHORS[k].pub for k in case["allow0"]}
            out["want_after"] = static | {evgen.AUTHORS[k].pub for k in case["allow1"]}
            out.update(before=before, after=after, vals=[(v.pubkey, v.outcome, v.started_at, v.finished_at, v.steps) for v in vals],
                       boundaries=il.boundaries, switches=il.switches)
        finally:
            await w.env.close()

    try:
        kernel.run_sim(sim, main)
    finally:
        w.env.cleanup()
    viol = []
    probes = collections.Counter()
    before, after = out["before"], out["after"]
    # "the dynamic lists contain exactly the p-tagged pubkeys of the configured queries plus the static whitelist"
    for name, got, want in (("first", before, out["want_before"]), ("second", after, out["want_after"]),
                            ("third", out["after3"], out["want_after"])):
        if got != want:
            viol.append({"cls": "list-contents", "sig": "list-contents|%s|%s|%s" % (
                backend, name, "missing" if want - got else "extra"),
                         "detail": {"refresh": name, "missing": sorted(x[:8] for x in want - got),
                                    "extra": sorted(x[:8] for x in got - want),
                                    "whitelist": bool(case.get("whitelist")), "service_key": bool(case.get("service_key", True))}})
            break
    in_window = 0
    for pk, outcome, s0, s1, steps in out["vals"]:
        listed = pk in before or pk in after
        if s0 is not None and s1 is not None and s0 < out["boundaries"]:
            in_window += 1
        if before and after and not listed and outcome == "pass":
            viol.append({"cls": "allow-list-window", "sig": "allow-list-window|%s" % backend,
                         "detail": {"pubkey": pk[:8], "before": sorted(x[:8] for x in before), "after": sorted(x[:8] for x in after),
                                    "started_at_boundary": s0, "finished_at_boundary": s1,
                                    "refresh_boundaries": out["boundaries"]}})
        if pk in before and pk in after and outcome != "pass":
            probes["transient_overblock"] += 1
    probes["mode_lists"] = 1
    probes["bytecode_boundaries"] = out["boundaries"]
    probes["thread_switches"] = out["switches"]
    probes["validations_overlapping_refresh"] = in_window
    sim.note("lists", "%s %s" % (out["boundaries"], out["switches"]))
    return {"violations": viol[:1], "nontrivial": in_window > 0, "probes": dict(probes),
            "signature": qcommon.h16((backend, case["allow0"], case["allow1"], [(v[0][:6], v[1], v[2], v[3]) for v in out["vals"]][:12]))}


def gen_race(rng, knobs):
    """race mode: the first validations a freshly built pipeline ever runs, two or three at once on executor
    threads, pre-empted at bytecode boundaries of nostr_relay.validators (and what it builds)"""
    base = gen(rng, dict(knobs, _no_modes=True))
    evs = [json.loads(i[1])[1] for i in base["clients"][1]["script"] if i[0] == "send"]
    rng.shuffle(evs)
    pipe = [p for p in base["pipeline"] if not p.endswith("is_pubkey_allowed")]
    return {"mode": "race", "backend": "sql", "pipeline": pipe, "cfg": base["cfg"], "events": evs[:rng.choice([2, 2, 3])],
            "weights": rng.choice([{"stay": 10.0, "switch": 1.0, "start": 1.0}, {"stay": 50.0, "switch": 1.0, "start": 3.0},
                                   {"stay": 2.0, "switch": 1.0, "start": 1.0}])}


def run_race(case, sim):
    """no storage, no loop: validate() coroutines are driven by hand, their executor jobs run on real threads"""
    import importlib
    import types as _types
    from ..worlds import lists as lw
    from ..worlds import env as envmod
    from .. import seams
    cfg = dict(case["cfg"])
    cfg["service_privatekey"] = evgen.SERVICE_SK
    envmod.reset_globals()
    envmod.reset_config(**cfg)
    from nostr_relay.config import Config
    from nostr_relay import validators as V_
    from nostr_relay import util as U_
    import asyncio as _aio
    seams.activate(sim)
    jobs = []

    class Pending:
        def __init__(self):
            self.done, self.res, self.exc = False, None, None

        def __await__(self):
            if not self.done:
                yield self
            if self.exc is not None:
                raise self.exc
            return self.res

    class CapLoop:
        def run_in_executor(self, ex, fn, *args):
            p = Pending()
            jobs.append((p, fn, args))
            return p

    cap = CapLoop()

    class NS(_types.SimpleNamespace):
        def __getattr__(self, name):
            return getattr(_aio, name)

    async def to_thread(fn, *a, **k):
        import functools
        return await cap.run_in_executor(None, functools.partial(fn, *a, **k))
    real_ns = V_.asyncio
    V_.asyncio = NS(get_running_loop=lambda: cap, get_event_loop=lambda: cap, to_thread=to_thread)
    out = []
    try:
        from aionostr.event import Event
        validate = V_.get_validator(list(case["pipeline"]))
        coros = []
        for ev in case["events"]:
            try:
                e = Event(**ev)
            except Exception:
                continue
            c = validate(e, Config)
            try:
                c.send(None)
                coros.append((ev, c, len(jobs) - 1))
            except StopIteration:
                out.append((ev, "pass", None))
            except Exception as ex:
                out.append((ev, "refuse", type(ex).__name__))
        codes = lw.module_codes(V_)
        lw.nested_codes(validate, codes)
        lw.nested_codes(U_.object_from_path, codes)
        race = lw.ThreadRace(sim, codes, [(lambda f=fn, a=args: f(*a)) for p, fn, args in jobs], case.get("weights"))
        done = race.run()
        for (p, fn, args), j in zip(jobs, done):
            p.done, p.res, p.exc = True, j.result, j.exc
        for ev, c, ji in coros:
            try:
                c.send(None)
                out.append((ev, "refuse", "still-pending"))
            except StopIteration:
                out.append((ev, "pass", None))
            except Exception as ex:
                out.append((ev, "refuse", "%s: %s" % (type(ex).__name__, str(ex)[:60])))
        boundaries, switches = race.boundaries, race.switches
    finally:
        V_.asyncio = real_ns
        seams.deactivate()
    viol = []
    names = [p.split(".")[-1] for p in case["pipeline"]]
    now = sim.clock.wall()
    overlapped = switches > len(case["events"])
    for ev, res, why in out:
        expect = None
        for nme in names:
            expect = decide(nme, ev, cfg, now, (set(), set()), evgen.SERVICE.pub)
            if expect:
                break
        if expect and res == "pass":
            viol.append({"cls": "race-policy-not-enforced", "sig": "race-policy-not-enforced|%s" % expect,
                         "detail": {"expected": expect, "pipeline": names, "events_at_once": len(case["events"]),
                                    "thread_switches": switches}})
        elif not expect and res != "pass":
            viol.append({"cls": "race-wrongly-refused", "sig": "race-wrongly-refused|%s" % str(why)[:30],
                         "detail": {"reason": why, "pipeline": names}})
    sim.note("race", "%d %d" % (boundaries, switches))
    return {"violations": viol[:1], "nontrivial": overlapped,
            "probes": {"mode_race": 1, "race_bytecode_boundaries": boundaries, "race_thread_switches": switches},
            "signature": qcommon.h16((names, [(e["id"][:6], r) for e, r, _ in out], switches))}


def gen(rng, knobs):
    import os
    share = float(os.environ.get("VERIF_C16_LISTS_SHARE", "0.4"))
    if not knobs.get("_no_modes"):
        if rng.random() < share:
            return gen_lists(rng)
        if rng.random() < 0.15:
            return gen_race(rng, knobs)
    backend = rng.choice(["sql", "lmdb"])
    pipe = [p for p in ALL if rng.random() < 0.4]
    rng.shuffle(pipe)
    pipe.insert(rng.randint(0, len(pipe)), V + "is_signed")
    cfg = {
        "max_event_size": rng.choice([0, 10, 64, 280]),
        "oldest_event": rng.choice([60, 3600, 86400]),
        "valid_kinds": rng.choice([[1], [1, 7, 5], [0, 1, 30000, 31494]]),
        "pubkey_whitelist": [evgen.AUTHORS[i].pub for i in rng.sample(range(3), rng.randint(1, 2))],
        "pubkey_blacklist": [evgen.AUTHORS[i].pub for i in rng.sample(range(3), rng.randint(0, 2))],
        "require_pow": rng.choice([0, 1, 4, 8, 10]),
        "hellthread_limit": rng.choice([0, 1, 3, 5]),
    }
    T = histgen.T0
    # dynamic lists: list-defining events preloaded (kind 3 by the service key = allow, 1984 = deny)
    allow_targets = [evgen.AUTHORS[i].pub for i in rng.sample(range(3), rng.randint(0, 2))]
    deny_targets = [evgen.AUTHORS[i].pub for i in rng.sample(range(3), rng.randint(0, 1))]
    lists = {"allow": allow_targets, "deny": deny_targets,
             "junk": rng.choice([[], [["p", "zz"]], [["p", "ABCDEF"]], [["p"]], [["p", evgen.AUTHORS[2].pub.upper()]]])}
    events = []
    for _ in range(rng.randint(4, 14)):
        a = rng.choice([0, 1, 2])
        what = rng.choice(["size", "size", "age", "age", "kind", "pow", "pow", "hell", "service", "plain", "author"])
        if what == "size":
            n = max(0, cfg["max_event_size"] + rng.choice([-1, 0, 1, 5]))
            ev = evgen.make(a, kind=rng.choice([1, 1, 20000]), created_at=T - 5, content="x" * n)
        elif what == "age":
            d = rng.choice([cfg["oldest_event"] - 1, cfg["oldest_event"], cfg["oldest_event"] + 1, cfg["oldest_event"] + 30,
                            -3599, -3600, -3601, -3630, 0])
            ev = evgen.make(a, kind=rng.choice([1, 1, 25000]), created_at=T - d, content="t")
            if rng.random() < 0.08:
                # not a point in time at all: inside no window
                ev = evgen.make(a, kind=1, created_at=float("nan"), content="t")
        elif what == "kind":
            ev = evgen.make(a, kind=rng.choice([0, 1, 2, 5, 7, 30000, 30001]), created_at=T - 5, content="k")
        elif what == "pow":
            ev = mine(rng, a, max(0, cfg["require_pow"] + rng.choice([-1, 0, 0, 1])))
        elif what == "hell":
            n = max(0, cfg["hellthread_limit"] + rng.choice([-1, 0, 1, 2]))
            ev = evgen.make(a, kind=rng.choice([1, 7, 4]), created_at=T - 5,
                            tags=[["p", histgen.hexid(rng)] for _ in range(n)] + [["e", histgen.hexid(rng)]], content="h")
        elif what == "service":
            ev = evgen.make(rng.choice([evgen.SERVICE, evgen.AUTHORS[a]]), kind=31494, created_at=T - 5,
                            tags=[["d", "x%d" % rng.randrange(100)]], content="s")
        else:
            ev = evgen.make(a, kind=1, created_at=T - 5, content="p%d" % rng.randrange(1000))
        events.append(ev)
    script = [["barrier"]] + [["send", json.dumps(["EVENT", e])] for e in events]
    obs = [["send", json.dumps(["REQ", "o", {"since": 1}])], ["barrier"]]
    return {"backend": backend, "pipeline": pipe, "cfg": cfg, "lists": lists,
            "lists_shape": rng.choice(["both", "both", "both", "allow-only", "deny-only", "deny-only-empty-allow"]),
            "clients": [{"script": obs}, {"script": script}]}


def sample(case):
    if case.get("mode") == "lists":
        return {k: case[k] for k in ("mode", "backend", "allow0", "allow1", "validators", "weights")}
    if case.get("mode") == "race":
        return {"mode": "race", "pipeline": [p.split(".")[-1] for p in case["pipeline"]], "events": len(case["events"]),
                "weights": case["weights"]}
    return {"backend": case["backend"], "pipeline": [p.split(".")[-1] for p in case["pipeline"]],
            "cfg": {k: (v if not isinstance(v, list) or len(str(v)) < 40 else len(v)) for k, v in case["cfg"].items()},
            "events": sum(1 for i in case["clients"][1]["script"] if i[0] == "send")}


def parse(text):
    try:
        return json.loads(text)
    except Exception:
        return None


def decide(name, ev, cfg, now, lists_state, service_pub):
    """documented decision of one validator: None = pass, str = refusal reason"""
    if name == "is_signed":
        return None if model.authentic(ev)[0] and type(ev["created_at"]) is int else "signature"
    if name == "is_not_too_large":
        return "size" if len(ev["content"]) > cfg["max_event_size"] else None
    if name == "is_recent":
        if ev["created_at"] != ev["created_at"]:
            return "old"         # NaN
        age = now - ev["created_at"]
        if age > cfg["oldest_event"]:
            return "old"
        if age < -3600:
            return "future"
        return None
    if name == "is_certain_kind":
        return None if ev["kind"] in cfg["valid_kinds"] else "kind"
    if name == "is_author_whitelisted":
        return None if ev["pubkey"] in cfg["pubkey_whitelist"] else "whitelist"
    if name == "is_author_blacklisted":
        return "blacklist" if ev["pubkey"] in cfg["pubkey_blacklist"] else None
    if name == "is_pow":
        lz = 256 - int(ev["id"], 16).bit_length()
        return None if lz >= cfg["require_pow"] else "pow"
    if name == "is_not_hellthread":
        if cfg["hellthread_limit"] and ev["kind"] in (1, 7):
            n = sum(1 for t in ev["tags"] if t and t[0] == "p")
            if n > cfg["hellthread_limit"]:
                return "hellthread"
        return None
    if name == "is_service_event":
        return "service" if ev["kind"] == 31494 and ev["pubkey"] != service_pub else None
    if name == "is_pubkey_allowed":
        allowed, denied = lists_state
        if allowed and ev["pubkey"] not in allowed:
            return "not-allowed"
        if denied and ev["pubkey"] in denied:
            return "denied"
        return None
    raise KeyError(name)


def run(case, sim):
    if case.get("mode") == "lists":
        return run_lists(case, sim)
    if case.get("mode") == "race":
        return run_race(case, sim)
    backend = case["backend"]
    names = recval.install(case["pipeline"])
    cfg = dict(case["cfg"])
    cfg["service_privatekey"] = evgen.SERVICE_SK
    uses_lists = any(p.endswith("is_pubkey_allowed") for p in case["pipeline"])
    lists = case["lists"]
    svc = evgen.SERVICE
    shape = case.get("lists_shape", "both")
    if uses_lists:
        cfg["dynamic_lists"] = {"check_interval": 7200}
        # a deployment may use only one of the two lists (an open relay with a block list; a closed one without)
        if shape in ("both", "allow-only"):
            cfg["dynamic_lists"]["allow_list_queries"] = [{"kinds": [3], "authors": [svc.pub]}]
        if shape in ("both", "deny-only"):
            cfg["dynamic_lists"]["deny_list_queries"] = [{"kinds": [1984], "authors": [svc.pub]}]
        if shape == "deny-only-empty-allow":
            cfg["dynamic_lists"]["allow_list_queries"] = None
            cfg["dynamic_lists"]["deny_list_queries"] = [{"kinds": [1984], "authors": [svc.pub]}]
    w = relay.RelayWorld(sim, backend, case["clients"], cfg=cfg, storage_opts={"validators": names})
    list_state = {}

    async def before(world):
        st = world.env.storage
        if uses_lists:
            from nostr_relay import dynamic_lists
            # list-defining events go in through an unvalidated store of their own pipeline? no:
            # they are written before the lists exist (empty lists enforce nothing)
            saved = st.validate_event

            async def novalidate(event, config):
                return None
            st.validate_event = novalidate
            try:
                if lists["allow"] or lists["junk"]:
                    ev = evgen.make(svc, kind=3, created_at=histgen.T0 - 100,
                                    tags=[["p", p] for p in lists["allow"]] + lists["junk"], content="")
                    await st.add_event(ev)
                if lists["deny"]:
                    ev = evgen.make(svc, kind=1984, created_at=histgen.T0 - 100,
                                    tags=[["p", p] for p in lists["deny"]], content="")
                    await st.add_event(ev)
            finally:
                st.validate_event = saved
            await sim.quiescent()
            lb = dynamic_lists.ListBuilder()
            await lb.start()           # run_at_start=True: first refresh happens in its task
            await sim.quiescent()
            list_state["allowed"] = {b.hex() for b in dynamic_lists.ALLOWED_PUBKEYS}
            list_state["denied"] = {b.hex() for b in dynamic_lists.DENIED_PUBKEYS}
            del recval.CALLS[:]
    w.before_clients = before
    w.run()
    viol = []
    probes = collections.Counter()
    allowed = list_state.get("allowed", set())
    denied = list_state.get("denied", set())
    if uses_lists:
        probes["list_refreshes"] += 1
        want_allow = set(lists["allow"])
        for t in lists["junk"]:
            if len(t) >= 2 and isinstance(t[1], str) and model.is_hex64(t[1].lower()):
                want_allow.add(t[1].lower())
        if want_allow:
            want_allow |= {svc.pub} | set(cfg["pubkey_whitelist"])
        if shape in ("deny-only", "deny-only-empty-allow"):
            want_allow = set()
        want_deny = set(lists["deny"]) if shape != "allow-only" else set()
        if allowed != want_allow:
            viol.append({"cls": "allow-list-content", "sig": "allow-list-content|" + backend,
                         "detail": {"extra": sorted(x[:8] for x in allowed - want_allow),
                                    "missing": sorted(x[:8] for x in want_allow - allowed)}})
        if denied != want_deny:
            viol.append({"cls": "deny-list-content", "sig": "deny-list-content|%s|%s" % (backend, shape),
                         "detail": {"got": sorted(x[:8] for x in denied), "want": sorted(x[:8] for x in want_deny)}})
    pipe_names = [p.split(".")[-1] for p in case["pipeline"]]
    # transcript facts
    sub = w.clients[1]
    oks = [(s, parse(t)) for s, t in sub.transcript]
    oks = [(s, m) for s, m in oks if isinstance(m, list) and len(m) == 4 and m[0] == "OK"]
    pushed = collections.Counter()
    first_push = {}
    for c in w.clients:
        for s, t in c.transcript:
            m = parse(t)
            if isinstance(m, list) and len(m) == 3 and m[0] == "EVENT" and isinstance(m[2], dict):
                pushed[m[2].get("id")] += 1
                first_push.setdefault(m[2].get("id"), s)
    final = w.final["dump"]
    states = w.env.states
    calls_by_id = collections.defaultdict(list)
    for r in recval.CALLS:
        calls_by_id[r["id"]].append(r)
    admitted = refused_policy = 0
    decisions = []
    seen_ids = set()
    for fr in sub.frames:
        m = parse(fr["text"])
        if not (isinstance(m, list) and len(m) >= 2 and m[0] == "EVENT"):
            continue
        ev = m[1]
        eid = ev["id"]
        hi = fr["t_done"] if fr["t_done"] is not None else 10 ** 12
        mine_ok = [k for s, k in oks if fr["t_deliver"] <= s <= hi]
        if not mine_ok:
            continue
        ok = mine_ok[0]
        dup = eid in seen_ids
        seen_ids.add(eid)
        calls = [r for r in calls_by_id.get(eid, []) if fr["t_deliver"] <= r["seq"] <= hi]
        now = calls[0]["now"] if calls else None
        # expected decision, validator by validator, at the wall-clock the validators saw
        expect = None
        ran_expected = []
        for nme in pipe_names:
            ran_expected.append(nme)
            expect = decide(nme, ev, cfg, now if now is not None else sim.clock.wall(), (allowed, denied), svc.pub)
            if expect:
                break
        ran = [r["v"] for r in calls]
        base = "%s|%s" % (backend, expect or "admit")
        decisions.append((expect or "admit", ok[2]))
        if ran != ran_expected:
            viol.append({"cls": "validators-not-run", "sig": "validators-not-run|%s|%s" % (backend, "fewer" if len(ran) < len(ran_expected) else "other"),
                         "detail": {"configured": pipe_names, "ran": ran, "expected_to_run": ran_expected}})
        if expect is None:
            admitted += 1
            if ok[2] is not True and not dup and "duplicate" not in str(ok[3]):
                viol.append({"cls": "wrongly-refused", "sig": "wrongly-refused|%s|%s" % (backend, str(ok[3])[:30]),
                             "detail": {"reason": ok[3], "now": now, "created_at": ev["created_at"], "kind": ev["kind"],
                                        "content_len": len(ev["content"]), "cfg": {k: v for k, v in cfg.items() if k in ("max_event_size", "oldest_event", "require_pow", "hellthread_limit", "valid_kinds")}}})
            # validators before store/broadcast
            if calls:
                last = max(r["seq"] for r in calls)
                fp = first_push.get(eid)
                if fp is not None and fp < last and not dup:
                    viol.append({"cls": "broadcast-before-validation", "sig": "broadcast-before-validation|" + backend,
                                 "detail": {"id": eid[:8]}})
                for seq, d in states:
                    if seq < last and eid in d and not dup and seq > fr["t_deliver"]:
                        viol.append({"cls": "stored-before-validation", "sig": "stored-before-validation|" + backend,
                                     "detail": {"id": eid[:8]}})
                        break
        else:
            if expect != "signature":
                refused_policy += 1
            if ok[2] is True:
                viol.append({"cls": "policy-not-enforced", "sig": "policy-not-enforced|%s" % base,
                             "detail": {"expected": expect, "now": now, "created_at": ev["created_at"], "kind": ev["kind"],
                                        "content_len": len(ev["content"]), "id_bits": 256 - int(eid, 16).bit_length(),
                                        "p_tags": sum(1 for t in ev["tags"] if t and t[0] == "p"),
                                        "cfg": {k: v for k, v in cfg.items() if k in ("max_event_size", "oldest_event", "require_pow", "hellthread_limit", "valid_kinds")}}})
            else:
                if not str(ok[3]):
                    viol.append({"cls": "refusal-without-reason", "sig": "refusal-without-reason|" + base, "detail": {}})
                accepted_elsewhere = any(k[1] == eid and k[2] is True for s3, k in oks)
                if not dup and not accepted_elsewhere and (
                        eid in final or pushed[eid] or any(eid in d for s2, d in states if s2 > fr["t_deliver"])):
                    viol.append({"cls": "refused-but-trace", "sig": "refused-but-trace|%s" % base,
                                 "detail": {"stored": eid in final, "pushed": pushed[eid]}})
    seen, v2 = set(), []
    for v in viol:
        if v["sig"] not in seen:
            seen.add(v["sig"])
            v2.append(v)
    probes["backend_" + backend] = 1
    probes["admitted"] = admitted
    probes["refused_by_policy"] = refused_policy
    for nme in pipe_names:
        probes["pipeline_has_" + nme] += 1
    return {"violations": v2, "nontrivial": admitted > 0 and refused_policy > 0, "probes": dict(probes),
            "signature": qcommon.h16((backend, pipe_names, decisions))}
