"""
C03 -- only authentic events are stored, acknowledged or forwarded.

Input-dominated (the predicate is a function of the submitted object); the simulator contributes
reach: the same monitor watches every admission path (websocket EVENT, direct storage.add_event =
bulk load, internal service events via set_auth_roles) and every outlet (OK frames, durable dumps of
both back ends after every commit, live pushes, stored results) under interleaved connections.
"""
import collections
import copy
import json

from .. import histgen, model, qcommon, evgen
from ..worlds import relay

ID = "C03"
LEVEL = "exploration"
CHUNK = 40
BUDGET = {"quick": {"runs": 2500, "wall": 150}, "thorough": {"runs": 100000, "wall": 1200}}
RULE = ("pool events with single and double field deviations: id random / hash of another event / "
        "upper or mixed case, pubkey or sig swapped between events, signature by another key, content / "
        "tags / kind / created_at changed under the old signature, numbers as strings / floats / bools, "
        "delegation tags valid / forged / transplanted / short; submitted over websocket EVENT and "
        "directly through storage.add_event, plus relay-signed service events; validator lists "
        "containing is_signed; observer subscribed before and a second one after; both back ends; "
        "non-trivial = at least one deviation was submitted on each path and at least one authentic "
        "event was accepted; distinct = hash of (backend, validators, deviation kinds, outcomes)")
COMPONENTS = {
    "real": ["validators.is_signed (+ is_not_too_large / is_recent when configured)", "aionostr Event.verify",
             "add_event on both back ends", "BaseStorage.add_service_event / set_auth_roles",
             "live and stored delivery"],
    "stub": ["websocket transport", "LMDB engine (fake)", "threads (actors)"],
}
ASSUMPTIONS = ["BIP-340 verification by coincurve is trusted", "events are judged as served/stored (a "
               "type-coerced submission is judged by what the relay then emits)"]
SHRINK = [["clients", "*", "script"], ["bulk"]]


def deviate(rng, base, others):
    ev = copy.deepcopy(base)
    kinds = []
    for _ in range(rng.choice([1, 1, 1, 2])):
        m = rng.choice(["id-random", "id-other", "id-upper", "id-mixed", "swap-pubkey", "swap-sig", "sig-other-key",
                        "content", "tags", "kind", "created_at", "num-str", "num-float", "num-bool",
                        "deleg-forged", "deleg-transplant", "deleg-short", "deleg-valid", "sig-zero", "id-short",
                        "pubkey-upper-resigned", "sig-upper", "created-str-resigned", "created-float-resigned",
                        "pubkey-spaced-resigned", "sig-spaced", "sig-spaced", "deleg-spaced"])
        o = rng.choice(others) if others else base
        if m == "id-random":
            ev["id"] = histgen.hexid(rng)
        elif m == "id-other":
            ev["id"] = o["id"]
        elif m == "id-upper":
            ev["id"] = ev["id"].upper()
        elif m == "id-mixed":
            ev["id"] = ev["id"][:10].upper() + ev["id"][10:]
        elif m == "swap-pubkey":
            ev["pubkey"] = o["pubkey"] if o["pubkey"] != ev["pubkey"] else evgen.KEYS[-1].pub
        elif m == "swap-sig":
            ev["sig"] = o["sig"]
        elif m == "sig-other-key":
            ev["sig"] = evgen.KEYS[-1].sign(bytes.fromhex(base["id"]))
        elif m == "content":
            ev["content"] = ev["content"] + "."
        elif m == "tags":
            ev["tags"] = ev["tags"] + [["t", "added"]]
        elif m == "kind":
            ev["kind"] = ev["kind"] + 1
        elif m == "created_at":
            ev["created_at"] = ev["created_at"] + 1
        elif m == "num-str":
            ev["created_at"] = str(ev["created_at"])
        elif m == "num-float":
            f = rng.choice(["kind", "created_at"])
            ev[f] = float(ev[f]) + rng.choice([0.0, 0.5])
        elif m == "num-bool":
            ev["kind"] = True
        elif m == "deleg-forged":
            t = evgen.delegation_tag(evgen.AUTHORS[0], ev["pubkey"])
            t[3] = t[3][:-2] + ("00" if t[3][-2:] != "00" else "01")
            ev["tags"] = ev["tags"] + [t]
            ev = evgen.resign(ev)
        elif m == "deleg-transplant":
            t = evgen.delegation_tag(evgen.AUTHORS[0], evgen.KEYS[-1].pub)
            ev["tags"] = ev["tags"] + [t]
            ev = evgen.resign(ev)
        elif m == "deleg-short":
            t = evgen.delegation_tag(evgen.AUTHORS[0], ev["pubkey"])
            ev["tags"] = ev["tags"] + [t[:rng.choice([2, 3])]]
            ev = evgen.resign(ev)
        elif m == "deleg-valid":
            ev["tags"] = ev["tags"] + [evgen.delegation_tag(evgen.AUTHORS[1], ev["pubkey"])]
            ev = evgen.resign(ev)
        elif m == "pubkey-upper-resigned":
            ev["pubkey"] = ev["pubkey"].upper()
            ev = evgen.resign(ev, evgen.BY_PUB[ev["pubkey"].lower()])
        elif m == "pubkey-spaced-resigned":
            # hex with white space in it (bytes.fromhex skips it): not a 64-hex key, whatever it decodes to
            w = rng.choice([" ", "\t", "\n"])
            k = rng.choice([0, 2, 32, 64])
            lower = ev["pubkey"].lower()
            ev["pubkey"] = lower[:k] + w + lower[k:]
            ev = evgen.resign(ev, evgen.BY_PUB[lower])
        elif m == "sig-spaced":
            w = rng.choice([" ", "\t", "\n", "  "])
            k = rng.choice([0, 2, 64, 128])
            ev["sig"] = ev["sig"][:k] + w + ev["sig"][k:]
        elif m == "deleg-spaced":
            t = evgen.delegation_tag(evgen.AUTHORS[1], ev["pubkey"])
            t[rng.choice([1, 3])] = " " + t[1] if rng.random() < 0.5 else t[3][:2] + " " + t[3][2:]
            ev["tags"] = ev["tags"] + [t]
            ev = evgen.resign(ev)
        elif m == "sig-upper":
            ev["sig"] = ev["sig"].upper()
        elif m == "created-str-resigned":
            ev["created_at"] = str(ev["created_at"])
            ev = evgen.resign(ev, evgen.BY_PUB[ev["pubkey"].lower()])
        elif m == "created-float-resigned":
            ev["created_at"] = float(ev["created_at"]) + 0.5
            ev = evgen.resign(ev, evgen.BY_PUB[ev["pubkey"].lower()])
        elif m == "sig-zero":
            ev["sig"] = "00" * 64
        elif m == "id-short":
            ev["id"] = ev["id"][:62]
        kinds.append(m)
    return ev, "+".join(kinds)


def gen(rng, knobs):
    backend = rng.choice(["sql", "lmdb"])
    h = histgen.Hist(rng, nauthors=3)
    pool = [h.regular() for _ in range(4)] + [h.replaceable(), h.regular(kind=31494)]
    validators = rng.choice([["nostr_relay.validators.is_signed"],
                             ["nostr_relay.validators.is_not_too_large", "nostr_relay.validators.is_signed",
                              "nostr_relay.validators.is_recent"],
                             ["nostr_relay.validators.is_signed", "nostr_relay.validators.is_not_hellthread"]])
    script = [["barrier"]]
    labels = []
    for _ in range(rng.randint(3, 12)):
        if rng.random() < 0.25:
            ev, lab = copy.deepcopy(rng.choice(pool)), "authentic"
        else:
            try:
                ev, lab = deviate(rng, rng.choice(pool), pool)
            except Exception:
                ev, lab = copy.deepcopy(rng.choice(pool)), "authentic"
        script.append(["send", json.dumps(["EVENT", ev])])
        labels.append(lab)
    # an authentic event, its removal (kind-5 by its author), then a forgery that reuses its id and
    # signature with other fields changed
    if rng.random() < 0.35:
        orig = h.regular(author=rng.choice([0, 1]))
        script.append(["send", json.dumps(["EVENT", orig])])
        labels.append("authentic")
        if rng.random() < 0.8:
            script.append(["send", json.dumps(["EVENT", h.deletion(author=[k.pub for k in evgen.AUTHORS].index(orig["pubkey"]),
                                                                  targets=[orig["id"]], created_at=histgen.T0)])])
            labels.append("authentic")
        script.append(["barrier"])
        forged = copy.deepcopy(orig)
        m = rng.choice(["content", "pubkey", "tags", "kind"])
        if m == "content":
            forged["content"] += " (edited)"
        elif m == "pubkey":
            forged["pubkey"] = evgen.AUTHORS[2].pub if orig["pubkey"] != evgen.AUTHORS[2].pub else evgen.AUTHORS[0].pub
        elif m == "tags":
            forged["tags"] = forged["tags"] + [["p", evgen.AUTHORS[1].pub]]
        else:
            forged["kind"] = 7 if forged["kind"] != 7 else 1
        script.append(["send", json.dumps(["EVENT", forged])])
        labels.append("reuse-id-sig-after-removal:" + m)
    bulk = []
    for _ in range(rng.randint(1, 5)):
        if rng.random() < 0.25:
            ev, lab = copy.deepcopy(rng.choice(pool)), "authentic"
        else:
            try:
                ev, lab = deviate(rng, rng.choice(pool), pool)
            except Exception:
                ev, lab = copy.deepcopy(rng.choice(pool)), "authentic"
        bulk.append([ev, lab])
    obs = [["send", json.dumps(["REQ", "o", {"since": 1}, {"kinds": [0, 1, 2, 3, 4, 5, 6, 7, 8, 256, 9999, 10000, 19999, 30000, 30001, 31494, 39999, 40000, 65535]}])],
           ["barrier"]]
    late = [["barrier"], ["barrier"], ["barrier"], ["send", json.dumps(["REQ", "late", {"since": 1}])]]
    clients = [{"script": obs}, {"script": script + [["barrier"], ["barrier"]]}, {"script": late}]
    if rng.random() < 0.4:
        # a second submitter works at the same time: forgeries that borrow the signature (or the id and the
        # signature) of an authentic event which the first submitter may be getting validated right then
        twin = [["barrier"]]
        for _ in range(rng.randint(2, 6)):
            e = rng.choice(pool)
            f = copy.deepcopy(e)
            f["content"] = f["content"] + " (forged %d)" % rng.randrange(1000)
            if rng.random() < 0.7:
                f["id"] = model.canon_id(f)           # its own hash, somebody else's signature
            twin.append(["send", json.dumps(["EVENT", f])])
            if rng.random() < 0.3:
                twin.append(["send", json.dumps(["EVENT", copy.deepcopy(e)])])     # and the genuine one itself
        clients.append({"script": twin})
        # the first submitter presents the pool's authentic events more often in such runs
        for e in rng.sample(pool, 3):
            script.insert(rng.randint(1, len(script)), ["send", json.dumps(["EVENT", copy.deepcopy(e)])])
            labels.append("authentic")
        clients[1] = {"script": script + [["barrier"], ["barrier"]]}
    return {"backend": backend, "validators": validators, "bulk": bulk, "labels": labels,
            "service": rng.random() < 0.5, "clients": clients}


def sample(case):
    return {"backend": case["backend"], "validators": [v.split(".")[-1] for v in case["validators"]],
            "ws_deviations": case["labels"][:10], "bulk_deviations": [b[1] for b in case["bulk"]]}


def parse(text):
    try:
        return json.loads(text)
    except Exception:
        return None


def run(case, sim):
    backend = case["backend"]
    w = relay.RelayWorld(sim, backend, case["clients"], storage_opts={"validators": list(case["validators"])},
                         cfg={"service_privatekey": evgen.SERVICE_SK, "oldest_event": 10 ** 9, "max_event_size": 4096,
                              "hellthread_limit": 100})
    bulk_out = []

    async def before(world):
        st = world.env.storage
        for ev, lab in case["bulk"]:
            try:
                e, changed = await st.add_event(copy.deepcopy(ev))
                bulk_out.append([lab, "ok", bool(changed)])
            except Exception as e:
                bulk_out.append([lab, "err", type(e).__name__])
        if case.get("service"):
            try:
                await st.set_auth_roles(evgen.AUTHORS[0].pub, "rw")
                bulk_out.append(["service", "ok", True])
            except Exception as e:
                bulk_out.append(["service", "err", type(e).__name__])
    w.before_clients = before
    w.run()
    viol = []
    probes = collections.Counter()

    authentic_ids = set()

    def judge(ev, where):
        ok, why = model.authentic(ev)
        if ok:
            authentic_ids.add(ev["id"])
        if not ok:
            viol.append({"cls": "unauthentic-" + where, "sig": "unauthentic-%s|%s|%s" % (where, backend, why.replace(" ", "-")[:30]),
                         "detail": {"why": why, "event": {k: (str(v)[:70]) for k, v in ev.items()} if isinstance(ev, dict) else str(ev)[:100]}})
    # every durable state that ever existed
    seen_ids = set()
    for seq, d in w.env.states + [(0, w.final.get("dump", {})), (0, w.final.get("dump_end", {}))]:
        for i, ev in d.items():
            key = (i, json.dumps(ev, sort_keys=True, default=str)[:200])
            if key in seen_ids:
                continue
            seen_ids.add(key)
            if "__undecodable__" in ev or "__keymismatch__" in ev:
                viol.append({"cls": "undecodable-record", "sig": "undecodable-record|" + backend, "detail": {"id": i[:16]}})
                continue
            judge(ev, "stored")
    acked = set()
    for c in w.clients:
        for s, t in c.transcript:
            m = parse(t)
            if not isinstance(m, list) or not m:
                continue
            if m[0] == "EVENT" and len(m) == 3 and isinstance(m[2], dict):
                judge(m[2], "pushed")
                probes["events_served"] += 1
            if m[0] == "OK" and len(m) == 4 and m[2] is True:
                acked.add(m[1])
    # OK=true refers to an authentic object: the submitted one with that id must be authentic
    submitted = collections.defaultdict(list)
    for cl in case["clients"][1:]:
        for it in cl["script"]:
            if it[0] == "send":
                ev = json.loads(it[1])[1]
                if isinstance(ev, dict):
                    submitted[str(ev.get("id"))].append(ev)
    for i in acked:
        cands = submitted.get(i, [])
        # judged by what the relay then stores / emits under that id (type-coerced submissions)
        if i not in authentic_ids and cands and not any(model.authentic(e)[0] for e in cands):
            why = model.authentic(cands[0])[1]
            viol.append({"cls": "unauthentic-acked", "sig": "unauthentic-acked|%s|%s" % (backend, why.replace(" ", "-")[:30]),
                         "detail": {"why": why, "id": i[:16]}})
    for lab, res, ch in bulk_out:
        probes["bulk_" + res] += 1
    n_auth_ok = len(acked)
    seen, v2 = set(), []
    for v in viol:
        if v["sig"] not in seen:
            seen.add(v["sig"])
            v2.append(v)
    probes["backend_" + backend] = 1
    probes["acked_true"] = n_auth_ok
    dev_ws = [l for l in case["labels"] if l != "authentic"]
    dev_bulk = [b[1] for b in case["bulk"] if b[1] != "authentic"]
    return {"violations": v2, "nontrivial": bool(dev_ws) and bool(dev_bulk) and n_auth_ok > 0, "probes": dict(probes),
            "signature": qcommon.h16((backend, case["validators"], case["labels"], bulk_out, sorted(acked)))}
