"""
C15 -- NIP-42 authentication succeeds only for a fresh, correctly signed answer.

Relay world with authentication enabled, 2-3 connections.  Each AUTH attempt is a valid answer or a
neighbour of one; probes after every attempt reveal the connection's identity (roles are laid out so
that identities are distinguishable).  Virtual clock: skew between client and relay, wall-clock jumps
between challenge and answer.  Entropy seam: every challenge must come from fresh entropy.
"""
import collections
import copy
import json

from .. import histgen, model, qcommon, evgen, kernel
from ..worlds import relay

ID = "C15"
LEVEL = "exploration"
CHUNK = 40
BUDGET = {"quick": {"runs": 2500, "wall": 150}, "thorough": {"runs": 100000, "wall": 1200}}
RULE = ("2-3 connections x 1-5 AUTH attempts each: valid answers and neighbours (kind 22241/22243/1, "
        "corrupted signature, signed by another key, claimed foreign pubkey, challenge of another or an "
        "earlier connection, literal/empty/missing challenge, missing or duplicated tags, relay URL exact / "
        "substring / superstring / case / trailing slash / other, created_at = now + {0, +-590, +-599, +-600, "
        "+-601, +-3600}), each followed by an EVENT and a REQ probe; relay_urls configured as a list or left "
        "at the default; wall-clock jumps of +-{300, 700} s and client clock skew; both back ends; "
        "non-trivial = at least one invalid and one valid attempt were judged on a live connection; "
        "distinct = hash of (backend, url config, attempt kinds, outcomes)")
COMPONENTS = {
    "real": ["auth.Authenticator.get_challenge / check_auth_event / authenticate / can_do", "web.start_client "
             "AUTH branch", "secrets.token_hex -> entropy seam", "time.time() seam in auth.py"],
    "stub": ["websocket transport", "entropy source (seeded stream with draw log)", "wall clock (virtual)",
             "LMDB engine (fake)", "threads (actors)"],
}
ASSUMPTIONS = ["|now - created_at| in [598, 602] seconds may go either way (exactly 600 is free, +-2 s for "
               "virtual time passing between sending and processing)",
               "an answer carrying both its own and a foreign challenge tag may go either way",
               "a challenge is 'from fresh entropy' when it embeds (hex) at least 8 bytes of one draw from "
               "the entropy seam made after the connection was accepted"]
SHRINK = [["clients"], ["clients", "*", "script"]]
URL = "ws://relay.example"
URL2 = "wss://relay2.example:7447"
URL3 = "ws://127.0.0.1:6969"
DEFAULT_URL = "ws://localhost:6969"


def attempt(rng, ci, nclients, url_ok):
    """returns (spec, expectation) expectation: 'valid' | 'invalid' | 'free'"""
    spec = {"key": rng.choice([0, 1, 3]), "url": url_ok}
    kind = rng.choice(["valid", "valid", "kind", "sig", "signer", "claim", "chal-other", "chal-literal", "chal-none",
                       "drop-relay", "dup-challenge-mixed", "url", "url", "time", "time", "extra", "dup-relay",
                       "time-type"])
    exp = "valid"
    if kind == "kind":
        spec["kind"] = rng.choice([22241, 22243, 1, 0, 27235])
        exp = "invalid"
    elif kind == "sig":
        spec["corrupt_sig"] = True
        exp = "invalid"
    elif kind == "signer":
        spec["sign_with"] = rng.choice([k for k in (0, 1, 3, 4) if k != spec["key"]])
        exp = "invalid"
    elif kind == "claim":
        spec["claim_pubkey"] = rng.choice([k for k in (0, 1, 3) if k != spec["key"]])
        exp = "invalid"
    elif kind == "chal-other":
        others = [i for i in range(nclients) if i != ci]
        spec["challenge"] = "other:%d" % rng.choice(others)
        exp = "invalid"
    elif kind == "chal-literal":
        spec["challenge"] = "literal:" + rng.choice(["", "00" * 16, "challenge", "x"])
        exp = "invalid"
    elif kind == "chal-none":
        spec["challenge"] = "none"
        exp = "invalid"
    elif kind == "drop-relay":
        spec["url"] = None
        exp = "invalid"
    elif kind == "dup-challenge-mixed":
        spec["extra_tags"] = [["challenge", "00" * 16]]
        exp = "free"
    elif kind == "url":
        u = url_ok
        spec["url"] = rng.choice([u[:2], u[:-1], u + "/", u + "x", u.upper(), "wss" + u[2:], "ws://evil.example",
                                  "", u[5:], "http" + u[2:], u.replace("ws://", "ws://x."),
                                  u + ".evil.org", "wss://evil.org/?" + u, "wss://evil.org/#" + URL3, " " + u, u + "\n",
                                  "x" + URL2, URL2 + "0", "wss://evil.org/" + URL2 + "/x"])
        exp = "invalid"
    elif kind == "time":
        dt = rng.choice([0, 590, -590, 599, -599, 600, -600, 601, -601, 3600, -3600, 605, -605, 597, -597])
        spec["dt"] = dt
        exp = "valid" if abs(dt) < 598 else ("free" if abs(dt) <= 602 else "invalid")
    elif kind == "time-type":
        # not a point in time at all (never 'within ten minutes of now'), or a number in another JSON dress
        raw = rng.choice(["NaN", "NaN", "Infinity", "-Infinity", "null", "true", "[NOW]", "NOW.5", "\"NOW\"", "1e400", "-0.0"])
        spec["created_raw"] = raw
        exp = "free" if raw in ("NOW.5", "\"NOW\"") else "invalid"
    elif kind == "extra":
        spec["extra_tags"] = [["p", "x"], ["relay2", "y"]]
    elif kind == "dup-relay":
        spec["dup"] = "relay"
    spec["_kind"] = kind
    return spec, exp


def gen(rng, knobs):
    backend = rng.choice(["sql", "lmdb"])
    url_cfg = rng.choice(["list", "list", "default", "string", "list2", "list3"])
    url_ok = DEFAULT_URL if url_cfg == "default" else URL
    h = histgen.Hist(rng, nauthors=3)
    pool = [h.regular() for _ in range(24)]
    n = rng.randint(2, 3)
    clients = []
    np = 0
    for ci in range(n):
        script = [["barrier"]]
        for _ in range(rng.randint(1, 5)):
            spec, exp = attempt(rng, ci, n, url_ok)
            jump = 0
            if rng.random() < 0.15:
                jump = rng.choice([300, -300, 700, -700])
                script.append(["clock", jump])
            script.append(["dyn", "auth", spec])
            script.append(["send", json.dumps(["EVENT", pool.pop()])])
            script.append(["send", json.dumps(["REQ", "p%d" % np, {"kinds": [1]}])])
            np += 1
            if rng.random() < 0.3:
                script.append(["barrier"])
        clients.append({"script": script})
    return {"backend": backend, "url_cfg": url_cfg, "clients": clients}


def sample(case):
    return {"backend": case["backend"], "url_cfg": case["url_cfg"],
            "clients": [[(i[2].get("_kind"), i[2].get("dt", 0)) if i[0] == "dyn" else i[0] if i[0] != "send" else json.loads(i[1])[0]
                         for i in c["script"]] for c in case["clients"]]}


def parse(text):
    try:
        return json.loads(text)
    except Exception:
        return None


ROLES = {0: "w", 1: "r"}     # key 3: no assignment (anonymous role)


def world_for(case, sim):
    auth = {"enabled": True, "actions": {"save": "w", "query": "rw"}}
    if case["url_cfg"] == "list":
        auth["relay_urls"] = [URL]
    elif case["url_cfg"] == "string":
        auth["relay_urls"] = URL
    elif case["url_cfg"] == "list2":
        auth["relay_urls"] = [URL, URL2]
    elif case["url_cfg"] == "list3":
        auth["relay_urls"] = [URL2, URL, URL3]
    w = relay.RelayWorld(sim, case["backend"], case["clients"],
                         cfg={"authentication": auth, "service_privatekey": evgen.SERVICE_SK})

    async def before(world):
        st = world.env.storage
        for k, roles in ROLES.items():
            await st.set_auth_roles(evgen.KEYS[k].pub, roles)
            await sim.quiescent()
        world.entropy_mark = len(sim.entropy.draws)
    w.before_clients = before
    return w


def run(case, sim):
    backend = case["backend"]
    w = world_for(case, sim)
    w.run()
    viol = []
    probes = collections.Counter()
    # ---- challenges ---------------------------------------------------------------------------
    draws = sim.entropy.draws[getattr(w, "entropy_mark", 0):]
    chals = {}
    for c in w.clients:
        ch = w.challenge_of(c)
        chals[c.idx] = ch
        if ch is None:
            viol.append({"cls": "no-challenge", "sig": "no-challenge|" + backend, "detail": {"client": c.idx}})
            continue
        fresh = any(n >= 8 and (hx in ch or (len(ch) >= 16 and ch in hx)) for n, hx in draws)
        if not fresh:
            viol.append({"cls": "challenge-not-from-entropy", "sig": "challenge-not-from-entropy|" + backend,
                         "detail": {"challenge": ch[:40], "draws": [(n, hx[:16]) for n, hx in draws][:6]}})
    vals = [v for v in chals.values() if v is not None]
    if len(set(vals)) != len(vals):
        viol.append({"cls": "challenge-reused", "sig": "challenge-reused|" + backend, "detail": {"challenges": vals}})
    # ---- identities -----------------------------------------------------------------------------
    judged_valid = judged_invalid = 0
    outcomes = []
    for ci, c in enumerate(w.clients):
        tx = [(s, parse(t)) for s, t in c.transcript if not t.startswith("__CLOSE__")]
        oks = [(s, m) for s, m in tx if isinstance(m, list) and len(m) == 4 and m[0] == "OK"]
        notices = [(s, m[1]) for s, m in tx if isinstance(m, list) and len(m) == 2 and m[0] == "NOTICE"]
        eose = {m[1] for s, m in tx if isinstance(m, list) and len(m) == 2 and m[0] == "EOSE"}
        closed_at = min((s for s, t in c.transcript if t.startswith("__CLOSE__")), default=None)
        specs = [i[2] for i in case["clients"][ci]["script"] if i[0] == "dyn"]
        model_id = None            # key index the model believes the connection has
        unknown = False            # after a 'free' attempt the model no longer knows
        k = 0
        frames = c.frames
        i = 0
        while i < len(frames):
            fr = frames[i]
            m = parse(fr["text"])
            if not (isinstance(m, list) and m and m[0] == "AUTH"):
                i += 1
                continue
            spec = specs[k] if k < len(specs) else {}
            k += 1
            exp = "valid"
            kind = spec.get("_kind", "?")
            # recompute the expectation (the spec is authoritative, also after shrinking)
            if kind in ("kind", "sig", "signer", "claim", "chal-other", "chal-literal", "chal-none", "drop-relay", "url"):
                exp = "invalid"
            elif kind == "dup-challenge-mixed":
                exp = "free"
            elif kind == "time-type":
                exp = "free" if spec.get("created_raw") in ("NOW.5", "\"NOW\"") else "invalid"
            elif kind == "time":
                dt = abs(spec.get("dt", 0))
                exp = "valid" if dt < 598 else ("free" if dt <= 602 else "invalid")
            # the window is judged against the relay's clock while it handled the command: the wall
            # clock may have jumped between the client signing and the relay checking
            try:
                created = m[1]["created_at"]
                walls = [w0 for w0 in (fr.get("wall_deliver"), fr.get("wall_done")) if w0 is not None]
                # ... and every value the wall clock jumped to while the frame was being handled
                hi_t = fr["t_done"] if fr.get("t_done") is not None else 10 ** 12
                walls += [wl for st, wl in getattr(w, "clock_jumps", []) if fr["t_deliver"] <= st <= hi_t]
                ages = [w0 - created for w0 in walls]
                if kind in ("valid", "time", "extra", "dup-relay") and ages:
                    if all(abs(a) < 598 for a in ages):
                        exp = "valid"
                    elif all(abs(a) > 602 for a in ages):
                        exp = "invalid"
                    else:
                        exp = "free"
            except Exception:
                exp = "free"
            if kind == "chal-other":
                # the other connection's challenge is only "foreign" if it differs from ours
                oc = chals.get(int(spec["challenge"][6:]))
                if oc is not None and oc == chals.get(ci):
                    exp = "free"
            # probes that follow: EVENT then REQ
            ev_fr = frames[i + 1] if i + 1 < len(frames) else None
            rq_fr = frames[i + 2] if i + 2 < len(frames) else None
            i += 1
            # (after shrinking the probes may be gone: judge only AUTH, EVENT, REQ triples)
            if (ev_fr is not None and (parse(ev_fr["text"]) or [None])[0] != "EVENT") or \
                    (rq_fr is not None and (parse(rq_fr["text"]) or [None])[0] != "REQ") or rq_fr is None:
                unknown = True       # cannot observe the outcome of this attempt
                continue
            if closed_at is not None and (ev_fr is None or ev_fr["t_deliver"] > closed_at or fr["t_done"] is None):
                outcomes.append((kind, "closed"))
                break
            if ev_fr is None or ev_fr["t_done"] is None:
                break
            hi = ev_fr["t_done"]
            okf = [mm for s, mm in oks if ev_fr["t_deliver"] <= s <= hi]
            if not okf:
                break
            can_save = okf[0][2] is True
            can_query = None
            if rq_fr is not None and rq_fr["t_done"] is not None:
                rm = parse(rq_fr["text"])
                restricted = any("restricted" in txt for s, txt in notices if rq_fr["t_deliver"] <= s <= rq_fr["t_done"])
                can_query = (not restricted)
            attempted = spec.get("key", 0) if spec.get("claim_pubkey") is None else spec["claim_pubkey"]
            # what the observations say about the identity
            if can_save:
                seen_id = {0}
            elif can_query:
                seen_id = {1}
            else:
                seen_id = {None, 3}
            before = model_id
            if exp == "valid":
                judged_valid += 1
                model_id = attempted
                unknown = False
            elif exp == "free":
                unknown = True
            else:
                judged_invalid += 1
            outcomes.append((kind, exp, sorted(map(str, seen_id))))
            if unknown:
                continue
            exp_set = {model_id} if model_id in (0, 1) else {None, 3}
            if not (seen_id & exp_set):
                if exp == "invalid":
                    viol.append({"cls": "auth-accepted-invalid", "sig": "auth-accepted-invalid|%s|%s|%s" % (
                        backend, case["url_cfg"] if kind == "url" else "-", kind),
                                 "detail": {"attempt": {k2: v for k2, v in spec.items()}, "identity_before": before,
                                            "observed": sorted(map(str, seen_id))}})
                    model_id = attempted if attempted in (0, 1) else model_id
                else:
                    probes["valid_answer_not_effective"] += 1
                    model_id = before
    # ---- challenges depend on the entropy stream only (re-run with another stream) ---------------
    if case.get("recheck_entropy", True) and not viol and len(w.clients) >= 2 and sim.steps < 3000:
        sim2 = kernel.Sim(sim.ch, seed_str="other-entropy", profile=sim.profile, step_cap=sim.step_cap)
        w2 = world_for(case, sim2)
        w2.run()
        sim.note("inner", sim2.log.digest())
        ch2 = [w2.challenge_of(c) for c in w2.clients]
        same = [a for a, b in zip(vals, ch2) if a == b]
        probes["entropy_reruns"] += 1
        if same:
            viol.append({"cls": "challenge-independent-of-entropy", "sig": "challenge-independent-of-entropy|" + backend,
                         "detail": {"same": same[:2]}})
    seen, v2 = set(), []
    for v in viol:
        if v["sig"] not in seen:
            seen.add(v["sig"])
            v2.append(v)
    probes["backend_" + backend] = 1
    probes["url_cfg_" + case["url_cfg"]] = 1
    probes["judged_valid"] = judged_valid
    probes["judged_invalid"] = judged_invalid
    return {"violations": v2, "nontrivial": judged_valid > 0 and judged_invalid > 0, "probes": dict(probes),
            "signature": qcommon.h16((backend, case["url_cfg"], outcomes))}
