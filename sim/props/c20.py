"""
C20 -- cross-worker notification delivers each event id intact, once, to other workers.

Notifier world: 2-4 real storages sharing one database (SQL file / LMDB environment), each with the
real NotifyClient, one real NotifyServer, on simulated TCP whose delivery the scheduler chunks at
will (split inside an id, across ids, coalesced), delays, and cuts (a peer disconnecting mid-stream).
"""
import asyncio
import collections
import copy
import json

from .. import histgen, model, qcommon, evgen, kernel, seams
from ..worlds import notifier as nw
from ..worlds.env import RunEnv

ID = "C20"
LEVEL = "exploration"
CHUNK = 40
CHUNK_DEADLINE = 600       # (long flavours: crowds, soaks, wide events; shared machines)
BUDGET = {"quick": {"runs": 2000, "wall": 150}, "thorough": {"runs": 100000, "wall": 1200}}
RULE = ("2-4 workers x 1-12 accepted events (ids random incl. 00.. and ff.. prefixes via mined content) "
        "x local subscribers with matching and non-matching filters; TCP delivery style per run: whole "
        "writes / byte at a time / 32-byte aligned / random split points chosen by the scheduler; bursts "
        "(several events before any delivery) and barriers; optional disconnect of one worker mid-stream; "
        "both back ends; non-trivial = at least one write was delivered in a chunk that is not a multiple "
        "of 32 bytes while >= 2 events were in flight, or a worker left mid-stream; distinct = hash of "
        "(backend, workers, chunk sizes, lookup sequences)")
COMPONENTS = {
    "real": ["notifier.NotifyServer.handle_notify", "notifier.NotifyClient.connect / notify",
             "BaseStorage.setup / notify_other_processes / notify_all_connected", "add_event + get_event on "
             "both back ends (shared database)", "asyncio.StreamReader"],
    "stub": ["TCP (ordered byte pipes chunked by the scheduler; no loss/duplication inside a connection)",
             "asyncio.start_server / open_connection", "LMDB engine (fake, one environment shared by the workers)",
             "threads (actors)"],
}
ASSUMPTIONS = ["only workers connected from before the first event until the end are owed every id",
               "events are accepted after all NotifyClients have connected (their 2 s start-up delay has "
               "passed); a worker accepting events before it is connected announces nothing (outside the "
               "statement)"]
SHRINK = [["steps"], ["subs"]]


def gen(rng, knobs):
    backend = rng.choice(["sql", "lmdb"])
    k = rng.randint(2, 4)
    h = histgen.Hist(rng, nauthors=3)
    steps = []
    soak = rng.random() < 0.02
    # (soak: one long process lifetime -- hundreds of announcements over the same connections, so that whatever
    #  a worker keeps per connection (buffers, counters, offsets) goes through its thresholds)
    n = rng.randint(1, 12) if not soak else rng.choice([140, 200, 300])
    for i in range(n):
        ev = h.regular(tags=[["t", rng.choice(["x", "y"])]])
        steps.append(["add", rng.randrange(k) if not soak or rng.random() < 0.1 else 0, ev])
        c = rng.random() * (8 if soak else 1)
        if c < 0.25:
            steps.append(["barrier"])
        elif c < 0.3:
            steps.append(["wait", rng.choice([0.1, 1.0])])
    if rng.random() < 0.2 and k >= 3:
        steps.insert(rng.randint(0, len(steps)), ["kill", rng.randrange(1, k)])
    subs = []
    for w in range(k):
        for j in range(rng.choice([1, 1, 2])):
            f = rng.choice([{"kinds": [1, 7, 4, 6, 256, 9999, 40000, 65535]}, {"#t": ["x"]}, {"#t": ["y"]},
                            {"authors": [evgen.AUTHORS[rng.randrange(3)].pub]}, {"kinds": [2]}])
            subs.append([w, "w%d_%d" % (w, j), f])
    return {"backend": backend, "workers": k, "steps": steps, "subs": subs,
            **({"step_cap": 800000} if soak else {}),
            "style": rng.choice(["random", "random", "random", "bytes", "whole", "aligned"]) if not soak
            else rng.choice(["random", "random", "whole", "ids"]),
            "sched": {"tcp": rng.choice([0.2, 1.0, 5.0]), "writer": rng.choice([0.2, 1.0, 5.0]),
                      "sql": rng.choice([0.5, 1.0, 3.0]), "ready": rng.choice([1.0, 4.0])}}


def sample(case):
    return {"backend": case["backend"], "workers": case["workers"], "style": case["style"],
            "steps": [[s[0], s[1] if len(s) > 1 and not isinstance(s[1], dict) else "", s[2]["id"][:8] if len(s) > 2 else ""]
                      for s in case["steps"]][:10], "subs": case["subs"][:4]}


def run(case, sim):
    backend = case["backend"]
    K = case["workers"]
    env = RunEnv(sim, backend, cfg={"run_notifier": True, "service_privatekey": evgen.SERVICE_SK})
    env.track_states = True
    net = nw.SimNet(sim, case.get("style", "random"))
    out = {"spies": [], "queues": [], "accepted": [], "killed": set(), "order": []}

    async def main(_):
        import nostr_relay.notifier as nf
        real_asyncio = nf.asyncio
        nf.asyncio = net.namespace()
        storages = []
        try:
            server = nf.NotifyServer()
            server.start()
            await asyncio.sleep(0)
            st0 = await env.open()
            storages.append(st0)
            opts = env.storage_options()
            for i in range(1, K):
                if backend == "sql":
                    from nostr_relay.storage.db import DBStorage
                    st = DBStorage(dict(opts))
                else:
                    kv = seams.install_kv(sim)
                    st = kv.LMDBStorage(dict(opts))
                await st.setup()
                storages.append(st)
            spies = []
            for i, st in enumerate(storages):
                spy = nw.StorageSpy(type("W", (), {"sim": sim})(), i, st)
                st.notifier.storage = spy
                spies.append(spy)
            out["spies"] = spies
            # clients connect after their 2 s start-up delay
            await asyncio.sleep(2.5)
            await sim.quiescent()
            conn_of = {}
            for i, st in enumerate(storages):
                w = st.notifier.writer
                for c in net.conns:
                    if c["w_client"] is w:
                        conn_of[i] = c
            out["connected"] = sorted(conn_of)
            # local subscribers
            from nostr_relay.util import ClientID
            queues = []
            cids = []
            for wi, sid, f in case["subs"]:
                q = asyncio.Queue()
                cid = ClientID("10.1.0.%d" % (len(cids) + 1))
                cids.append(cid)
                await storages[wi].subscribe(cid, sid, [copy.deepcopy(f)], q)
                queues.append((wi, sid, f, q))
            await sim.quiescent()
            out["queues"] = queues
            t_first = None
            for step in case["steps"]:
                if step[0] == "add":
                    wi, ev = step[1], step[2]
                    try:
                        e, changed = await storages[wi].add_event(copy.deepcopy(ev))
                        if changed:
                            out["accepted"].append((wi, ev, sim.stamp()))
                    except Exception as ex:
                        out["order"].append(("add-error", wi, type(ex).__name__))
                elif step[0] == "barrier":
                    await sim.quiescent()
                elif step[0] == "wait":
                    await asyncio.sleep(step[1])
                elif step[0] == "kill":
                    wi = step[1]
                    if wi in conn_of:
                        net.kill(conn_of[wi])
                        out["killed"].add(wi)
            await sim.quiescent()
            await asyncio.sleep(1.0)
            await sim.quiescent()
            out["server_tasks"] = [(c["port"], c["task"].done(), (c["task"].exception() if c["task"].done() and not c["task"].cancelled() else None))
                                   for c in net.conns]
            out["client_tasks"] = [(i, st.notifier._task.done()) for i, st in enumerate(storages)]
            sim.draining = True
            for st in storages:
                if st.notifier and st.notifier._task:
                    st.notifier._task.cancel()
            if server._task:
                server._task.cancel()
            await asyncio.sleep(0)
        finally:
            nf.asyncio = real_asyncio
            for st in storages[1:]:
                try:
                    await st.close()
                    if backend == "sql":
                        import sqlalchemy as sa
                        from sqlalchemy.engine.base import Engine
                        sa.event.remove(Engine, "connect", st._set_sqlite_pragma)
                except Exception:
                    pass
            await env.close()

    try:
        kernel.run_sim(sim, main)
    finally:
        env.cleanup()
    viol = []
    probes = collections.Counter()
    probes.update(sim.probes)
    spies = out["spies"]
    accepted = out["accepted"]
    ids = {ev["id"]: wi for wi, ev, t in accepted}
    killed = out["killed"]
    connected = set(out.get("connected", []))
    if len(connected) < K:
        viol.append({"cls": "worker-not-connected", "sig": "worker-not-connected|" + backend,
                     "detail": {"connected": sorted(connected), "workers": K}})
    stable = [i for i in range(K) if i in connected and i not in killed]
    for j in range(K):
        spy = spies[j]
        seen = collections.Counter(h for s, h, found in spy.lookups)
        for hx, n in seen.items():
            if hx not in ids:
                viol.append({"cls": "garbled-id", "sig": "garbled-id|%s|%s" % (backend, "short" if len(hx) < 64 else "misaligned"),
                             "detail": {"worker": j, "got": hx[:70], "len_bytes": len(hx) // 2, "style": case.get("style")}})
                break
        if j not in stable:
            continue
        for eid, origin in ids.items():
            if origin not in stable:
                continue
            n = seen.get(eid, 0)
            if origin == j:
                if n:
                    viol.append({"cls": "echoed-to-sender", "sig": "echoed-to-sender|" + backend,
                                 "detail": {"worker": j, "id": eid[:8], "times": n}})
            elif n != 1:
                viol.append({"cls": "id-not-once", "sig": "id-not-once|%s|n=%d" % (backend, min(n, 2)),
                             "detail": {"worker": j, "origin": origin, "id": eid[:8], "times": n, "style": case.get("style"),
                                        "killed": sorted(killed)}})
                break
        # pushes caused by announcements: one per id, found in the shared database
        for s, hx, found in spy.lookups:
            if hx in ids and not found and ids[hx] in stable:
                viol.append({"cls": "announced-before-stored", "sig": "announced-before-stored|" + backend,
                             "detail": {"worker": j, "origin": ids[hx], "id": hx[:8]}})
                break
    # local subscribers: exactly the pushes a locally accepted event would produce, once each
    for wi, sid, f, q in out["queues"]:
        got = collections.Counter()
        while not q.empty():
            s, e = q.get_nowait()
            if e is not None:
                got[e.id] += 1
        if wi not in stable:
            continue
        for eid, origin in ids.items():
            if origin not in stable:
                continue
            ev = [e for w2, e, t in accepted if e["id"] == eid][0]
            want = 1 if model.matches(ev, f, "strict") else 0
            if got.get(eid, 0) != want:
                viol.append({"cls": "subscriber-push", "sig": "subscriber-push|%s|%s|want=%d|got=%d" % (
                    backend, "local" if origin == wi else "remote", want, min(got.get(eid, 0), 2)),
                             "detail": {"worker": wi, "origin": origin, "sub": sid, "filter": f, "id": eid[:8]}})
                break
    for port, done, exc in out.get("server_tasks", []):
        if exc is not None:
            viol.append({"cls": "server-task-raised", "sig": "server-task-raised|" + backend, "detail": {"exc": repr(exc)[:100]}})
    seen, v2 = set(), []
    for v in viol:
        if v["sig"] not in seen:
            seen.add(v["sig"])
            v2.append(v)
    probes["backend_" + backend] = 1
    probes["style_" + case.get("style", "random")] = 1
    probes["events_accepted"] = len(accepted)
    probes["workers_killed"] = len(killed)
    chunks = [tuple(c["c2s"].chunks) + tuple(c["s2c"].chunks) for c in net.conns]
    nontrivial = (probes.get("unaligned_chunks", 0) > 0 and len(accepted) >= 2) or bool(killed)
    return {"violations": v2, "nontrivial": nontrivial, "probes": dict(probes),
            "signature": qcommon.h16((backend, K, chunks, [[h[:6] for s, h, f in sp.lookups] for sp in spies]))}
