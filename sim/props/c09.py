"""
C09 -- replaceable events: newest kept, older superseded, everything else untouched.

Store world, both back ends: arrival orders over authors x kinds x d-values x timestamps; the
LMDB writer is a scheduler-owned actor; the oracle is an observed-state postcondition.
"""
import hashlib

from .. import histgen, model, oracles, evgen
from ..worlds import store

ID = "C09"
LEVEL = "exploration"
CHUNK = 60
BUDGET = {"quick": {"runs": 4000, "wall": 120}, "thorough": {"runs": 300000, "wall": 1200}}
RULE = ("3-6 events drawn from authors{2} x kinds{0,3,10000,19999,30000,39999,1,9999,20000,40000} x "
        "d{absent,bare,'',a,ab,abc,é} x timestamps{T-20,T-10,T-10,T-5} in seeded arrival order "
        "(biased to out-of-order and ties) plus unrelated noise, on SQL-file and LMDB; non-trivial = "
        "some accepted event had a same-address predecessor stored; distinct = hash of (backend, "
        "sequence of (author, kind, d, timestamp))")
COMPONENTS = {
    "real": ["DBStorage.add_event/pre_save/post_save", "kv.WriterThread._post_save/_delete_event",
             "AuthorKindIndex scanner", "sqlite3", "SQLAlchemy"],
    "stub": ["LMDB engine (fake)", "threads (scheduler-owned actors)"],
}
ASSUMPTIONS = ["equal timestamps may be resolved either way",
               "absent, bare [\"d\"] and [\"d\",\"\"] name the same address (NIP-33)"]
SHRINK = [["ops"]]

KINDS = [0, 3, 10000, 19999, 30000, 39999, 30000, 39999, 1, 9999, 20000, 40000]
TS = [histgen.T0 - 20, histgen.T0 - 10, histgen.T0 - 10, histgen.T0 - 5]


def gen(rng, knobs):
    backend = rng.choice(["sql", "lmdb"])
    h = histgen.Hist(rng, nauthors=2)
    # a focus address so that collisions are likely
    fa = rng.choice([0, 1])
    fk = rng.choice([0, 3, 10000, 19999, 30000, 30000, 39999])
    n = rng.randint(3, 6)
    for _ in range(n):
        if rng.random() < 0.7:
            a, k = fa, fk
        else:
            a, k = rng.choice([0, 1]), rng.choice(KINDS)
        t = rng.choice(TS)
        if model.is_param_replaceable(k) or model.is_replaceable(k):
            ev = h.replaceable(author=a, kind=k, created_at=t,
                               d=rng.choice(histgen.D_VALUES) if model.is_param_replaceable(k) else None)
        else:
            ev = h.regular(author=a, kind=k, created_at=t, tags=[["d", rng.choice(["a", "ab", ""])]]
                           if rng.random() < 0.3 else [])
        h.add(ev)
        if rng.random() < 0.15:
            h.add(h.regular())
    if rng.random() < 0.3:
        # versions of one address stored at overlapping times (different connections of a real relay): the newest
        # accepted version survives whatever the interleaving
        a, k = rng.choice([0, 1]), rng.choice([0, 3, 10000, 10005, 19999, 30000, 39999])
        d = rng.choice(["a", "", None]) if model.is_param_replaceable(k) else None
        base = histgen.T0 - 50
        v = [h.replaceable(author=a, kind=k, created_at=base + dt, d=d) for dt in rng.sample(range(1, 9), rng.choice([2, 3]))]
        first = h.replaceable(author=a, kind=k, created_at=base, d=d)
        h.add(first)
        batch = list(v)
        if rng.random() < 0.5:
            batch.append(h.regular())
        rng.shuffle(batch)
        h.ops.append(["cadd", batch])
    for _ in range(rng.choice([0, 0, 1, 2])):
        h.ops.insert(rng.randint(1, len(h.ops)), ["restart"])          # the relay restarts somewhere in the history
    pools = {}
    if backend == "sql" and rng.random() < 0.5:
        pools = {"num_concurrent_adds": rng.choice([2, 4, 8])}
    return {"backend": backend, "ops": h.ops, "storage_opts": pools}


def sample(case):
    return {"backend": case["backend"],
            "ops": [oracles.brief(o[1]) if o[0] == "add" else ["cadd", [oracles.brief(e) for e in o[1]]]
                    for o in case["ops"] if o[0] in ("add", "cadd")]}


def dclass(ev):
    for t in ev["tags"]:
        if t and t[0] == "d":
            if len(t) == 1:
                return "bare"
            return "empty" if t[1] == "" else "val"
    return "absent"


def kclass(k):
    if k in (0, 3):
        return "k%d" % k
    if model.is_replaceable(k):
        return "repl"
    if model.is_param_replaceable(k):
        return "param"
    return "regular"


def relation(E, x):
    if x["pubkey"] != E["pubkey"]:
        return "other-author"
    if x["kind"] != E["kind"]:
        return "other-kind"
    if model.address(x) is None:
        return "regular"
    if model.address(x) == model.address(E):
        return "same-address-newer"
    dx, de = model.d_value(x), model.d_value(E)
    if de and (de in dx or dx in de):
        return "other-d-substring"
    return "other-d"


def check_concurrent(o, backend, viol):
    """a batch of overlapping submissions: judged as a whole"""
    pre, post = o["pre"], o["post"]
    batch = o["op"][1]
    acc = [e for e, r in zip(batch, o["res"][1]) if r[0] == "ok" and r[1]]
    pool = dict(pre)
    for e in acc:
        if not model.is_ephemeral(e["kind"]):
            pool[e["id"]] = e
    newest = {}
    for i, x in pool.items():
        a = model.address(x)
        if a is None:
            continue
        if a not in newest or x["created_at"] > newest[a][0]:
            newest[a] = (x["created_at"], {i})
        elif x["created_at"] == newest[a][0]:
            newest[a][1].add(i)
    for a, (t, ids) in newest.items():
        if not (ids & set(post)):
            viol.append({"cls": "newest-lost", "sig": "newest-lost|%s|concurrent|%s" % (backend, kclass(a[1])),
                         "detail": {"address": list(map(str, a)), "t": t, "results": o["res"][1],
                                    "stored": [oracles.brief(x) for x in post.values() if model.address(x) == a]}})
    addrs = {model.address(e) for e in acc if model.address(e) is not None}
    for i in set(pre) - set(post):
        x = pre[i]
        if model.address(x) is None or model.address(x) not in addrs:
            viol.append({"cls": "wrongly-removed", "sig": "wrongly-removed|%s|concurrent|victim=%s" % (
                backend, "regular" if model.address(x) is None else "other-address"),
                         "detail": {"victim": oracles.brief(x)}})
    # versions that were already stored before the batch and are older than an accepted one: gone
    for i, x in pre.items():
        a = model.address(x)
        if a in addrs and i in post and any(model.address(e) == a and e["created_at"] > x["created_at"] for e in acc):
            viol.append({"cls": "not-superseded", "sig": "not-superseded|%s|concurrent|%s" % (backend, kclass(x["kind"])),
                         "detail": {"still_stored": oracles.brief(x)}})
    for e in acc:
        if model.address(e) is None and e["id"] not in post and not model.is_ephemeral(e["kind"]):
            viol.append({"cls": "wrongly-removed", "sig": "wrongly-removed|%s|concurrent|victim=batch-regular" % backend,
                         "detail": {"victim": oracles.brief(e)}})


def check(obs, backend):
    viol = []
    nontrivial = False
    for o in obs:
        if o["op"][0] == "cadd" and "post" in o:
            check_concurrent(o, backend, viol)
            nontrivial = True
            continue
        if o["op"][0] != "add" or "post" not in o:
            continue
        E = o["op"][1]
        pre, post = o["pre"], o["post"]
        removed = set(pre) - set(post)
        added = set(post) - set(pre)
        kc = kclass(E["kind"])
        base = "%s|%s|d=%s" % (backend, kc, dclass(E))
        if added - {E["id"]}:
            viol.append({"cls": "spurious-add", "sig": "spurious-add|" + base,
                         "detail": {"E": oracles.brief(E), "added": sorted(added)}})
        if E["kind"] == 5:
            continue    # deletions are C08's business
        if not oracles.accepted(o):
            if removed:
                viol.append({"cls": "refused-but-removed", "sig": "refused-but-removed|" + base,
                             "detail": {"E": oracles.brief(E), "res": o["res"],
                                        "removed": [oracles.brief(pre[i]) for i in removed]}})
            continue
        must, may = oracles.replace_sets(pre, E)
        if must:
            nontrivial = True
        left = must & set(post)
        if left:
            viol.append({"cls": "not-superseded",
                         "sig": "not-superseded|%s|older=%d|left=%d" % (base, len(must), len(left)),
                         "detail": {"E": oracles.brief(E), "still_stored": [oracles.brief(pre[i]) for i in left],
                                    "pre": [oracles.brief(x) for x in pre.values()]}})
        wrong = removed - must - may
        for i in sorted(wrong):
            viol.append({"cls": "wrongly-removed",
                         "sig": "wrongly-removed|%s|victim=%s|vd=%s" % (base, relation(E, pre[i]), dclass(pre[i])),
                         "detail": {"E": oracles.brief(E), "victim": oracles.brief(pre[i]), "res": o["res"]}})
        # "never removes an event with a different author, kind or d-value": what stays keeps its access paths
        from . import c17
        for v in c17.index_entries(o, backend):
            v["sig"] = v["sig"] + "|after-replacement"
            v["detail"]["E"] = oracles.brief(E)
            viol.append(v)
        # the newest version of every address survives
        pool = dict(pre)
        if not model.is_ephemeral(E["kind"]):
            pool[E["id"]] = E
        newest = {}
        for i, x in pool.items():
            a = model.address(x)
            if a is None:
                continue
            if a not in newest or x["created_at"] > newest[a][0]:
                newest[a] = (x["created_at"], {i})
            elif x["created_at"] == newest[a][0]:
                newest[a][1].add(i)
        for a, (t, ids) in newest.items():
            if not (ids & set(post)):
                viol.append({"cls": "newest-lost", "sig": "newest-lost|" + base,
                             "detail": {"E": oracles.brief(E), "address": list(map(str, a)), "t": t,
                                        "res": o["res"]}})
    return viol, nontrivial


def run(case, sim):
    w, obs = store.run_store(sim, case["backend"], case["ops"], full_gc=True,
                             storage_opts=case.get("storage_opts") or None)
    viol, nontrivial = check(obs, case["backend"])
    viol += oracles.restart_changes(obs, case["backend"])
    seen, v2 = set(), []
    for v in viol:
        if v["sig"] not in seen:
            seen.add(v["sig"])
            v2.append(v)
    shape = [(o[1]["pubkey"][:4], o[1]["kind"], dclass(o[1]), o[1]["created_at"]) if o[0] == "add" else
             ("cadd", tuple((e["kind"], e["created_at"]) for e in o[1])) if o[0] == "cadd" else o[0] for o in case["ops"]]
    return {"violations": v2, "nontrivial": nontrivial,
            "probes": {"backend_" + case["backend"]: 1, "had_predecessor": int(nontrivial),
                       "errors": sum(1 for o in obs if o["res"][0] == "err")},
            "signature": hashlib.sha256(repr((case["backend"], shape)).encode()).hexdigest()[:16]}
