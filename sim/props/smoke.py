"""import + one tiny history on each back end (MANIFEST.setup_cmd)"""
ID = "SMOKE"
LEVEL = "exploration"


def run(case, sim):
    from .. import evgen
    from ..worlds import store
    evs = [evgen.make(0, kind=1, created_at=1700000000 + i, content="c%d" % i, tags=[["t", "x"]])
           for i in range(3)]
    ops = [["add", e] for e in evs] + [["query", [{"kinds": [1]}]], ["restart"],
                                       ["sub", [{"#t": ["x"], "limit": 2}]]]
    w, obs = store.run_store(sim, case["backend"], ops)
    assert len(obs[3]["res"][1]) == 3, obs[3]
    assert len(obs[5]["res"][1]) == 2, obs[5]
    return {"violations": []}
