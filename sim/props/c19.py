"""
C19 -- no client input can crash, wedge or leak a connection, or disturb others.

Relay world: one hostile connection sending grammar-mutated frames interleaved with well-formed
probe commands, one well-behaved connection running its own script, optional disconnects at
arbitrary instants, slow consumers and injected storage errors.  Model-based oracle (no twin run).
"""
import collections
import copy
import json

from .. import histgen, model, qcommon, evgen
from ..worlds import relay

ID = "C19"
LEVEL = "exploration"
CHUNK = 30
CHUNK_DEADLINE = 600       # (long flavours: crowds, soaks, wide events; shared machines)
BUDGET = {"quick": {"runs": 2500, "wall": 150}, "thorough": {"runs": 100000, "wall": 1200}}
RULE = ("hostile connection: 3-12 frames, each a well-formed EVENT/REQ/CLOSE/AUTH with 1-2 typed "
        "mutations (every JSON type at any position of the command, event object or filter; dropped and "
        "extra elements; wrong verb; non-array; raw garbage; 2000-deep nesting; 200 kB strings), each "
        "followed by a well-formed probe (REQ or EVENT); a second, well-behaved connection with "
        "REQ/EVENT/CLOSE; optional disconnect at a random point, slow consumers, 0-2 injected SQL errors; "
        "both back ends; non-trivial = the hostile connection was still open after a mutated frame and a "
        "probe was answered; distinct = hash of (backend, mutation kinds, close codes, answered probes)")
COMPONENTS = {
    "real": ["web.start_client (every except branch)", "web.validate_message", "rapidjson decoder",
             "BaseStorage.subscribe (NostrQuery validation)", "add_event on both back ends",
             "storage.clients registry / task cleanup in finally"],
    "stub": ["websocket transport", "LMDB engine (fake)", "threads (actors)"],
}
ASSUMPTIONS = ["closing the connection with ws_close(1013) and returning is an allowed reaction to any frame",
               "frames that fail the shape gate are ignored without an answer by design",
               "authentication disabled in this check (AUTH frames are then ignored); C15 covers AUTH",
               "with rate limits configured (a third of the runs) 'rate-limited' OK/NOTICE frames count as answers"]
SHRINK = [["clients", "*", "script"], ["faults"]]

VALUES = [None, True, False, 0, -1, 1.5, 2 ** 70, "", "x", [], [[]], {}, {"a": 1}, "\x00", "é", [None], ["x", 1]]


def paths(obj, prefix=()):
    out = [prefix]
    if isinstance(obj, list):
        for i, v in enumerate(obj):
            out.extend(paths(v, prefix + (i,)))
    elif isinstance(obj, dict):
        for k, v in obj.items():
            out.extend(paths(v, prefix + (k,)))
    return out


def set_path(obj, path, val):
    if not path:
        return val
    cur = obj
    for p in path[:-1]:
        cur = cur[p]
    cur[path[-1]] = val
    return obj


def mutate(rng, msg):
    """returns (text, kind-of-mutation)"""
    c = rng.random()
    if c < 0.08:
        return rng.choice(["{", "[", "[1,", "nul", '"x"', "[]", '["REQ"]', "", " ", "\x00", "[\"EVENT\"]",
                           '{"a":1}', "12", "true"]), "garbage"
    if c < 0.11:
        return "[" * 2000 + "]" * 2000, "deep"
    if c < 0.14:
        m = copy.deepcopy(msg)
        big = "A" * 200000
        if m[0] == "REQ":
            m[1] = big
        elif m[0] == "EVENT" and isinstance(m[1], dict):
            m[1]["content"] = big
        else:
            m.append(big)
        return json.dumps(m), "huge"
    m = copy.deepcopy(msg)
    kinds = []
    for _ in range(rng.choice([1, 1, 2])):
        k = rng.random()
        ps = [p for p in paths(m) if p]
        if k < 0.6 and ps:
            p = rng.choice(ps)
            m = set_path(m, list(p), copy.deepcopy(rng.choice(VALUES)))
            kinds.append("type@%s" % "/".join("k" if isinstance(x, str) else "i" for x in p))
        elif k < 0.75 and isinstance(m, list) and len(m) > 1:
            del m[rng.randrange(len(m))]
            kinds.append("drop")
        elif k < 0.85 and isinstance(m, list):
            m.insert(rng.randint(0, len(m)), copy.deepcopy(rng.choice(VALUES)))
            kinds.append("extra")
        elif k < 0.92 and isinstance(m, list) and m:
            m[0] = rng.choice(["req", "EVENTS", "", None, "AUTH", "COUNT", 5])
            kinds.append("verb")
        else:
            m = rng.choice([{"0": m}, "str", 5, None])
            kinds.append("nonarray")
    try:
        return json.dumps(m), "+".join(kinds)
    except Exception:
        return "[]", "garbage"


def gen(rng, knobs):
    backend = rng.choice(["sql", "lmdb"])
    h = histgen.Hist(rng, nauthors=3)
    pre = [h.regular() for _ in range(rng.randint(0, 5))]
    pool = [h.regular() for _ in range(10)] + [h.replaceable(), h.deletion()]
    rng.shuffle(pool)
    hostile = []
    np = 0
    for _ in range(rng.randint(3, 12)):
        base = rng.choice(["EVENT", "REQ", "REQ", "CLOSE", "AUTH"])
        if base == "EVENT":
            msg = ["EVENT", rng.choice(pool + pre)]
        elif base == "REQ":
            msg = ["REQ", "h%d" % np] + [histgen.wellformed_filter(rng, pre + pool) for _ in range(rng.choice([1, 2]))]
        elif base == "CLOSE":
            msg = ["CLOSE", "h%d" % rng.randint(0, max(np, 1))]
        else:
            msg = ["AUTH", rng.choice(pool)]
        text, kind = mutate(rng, msg)
        hostile.append(["send", text, kind])
        # probe
        np += 1
        if rng.random() < 0.6:
            hostile.append(["send", json.dumps(["REQ", "p%d" % np, histgen.wellformed_filter(rng, pre + pool)]), "probe"])
        elif pool:
            hostile.append(["send", json.dumps(["EVENT", pool.pop()]), "probe"])
        if rng.random() < 0.3:
            hostile.append(["barrier"])
    if rng.random() < 0.25:
        hostile.insert(rng.randint(1, len(hostile)), ["disconnect"])
    good = []
    ng = 0
    for _ in range(rng.randint(3, 9)):
        c = rng.random()
        if c < 0.5:
            good.append(["send", json.dumps(["REQ", "g%d" % ng, histgen.wellformed_filter(rng, pre + pool)]), "good"])
            ng += 1
        elif c < 0.8 and pool:
            good.append(["send", json.dumps(["EVENT", pool.pop()]), "good"])
        elif c < 0.9 and ng:
            good.append(["send", json.dumps(["CLOSE", "g%d" % rng.randrange(ng)]), "good"])
        else:
            good.append(["barrier"])
    flood = rng.random() < 0.12
    if flood:
        # a consumer that does not read and leaves with a large backlog owed to it: many broad REQs over a
        # well-filled store, then a disconnect; the well-behaved connection asks afterwards
        pre = [h.regular(kind=1) for _ in range(rng.randint(10, 20))]
        hostile = [["send", json.dumps(["REQ", "f%d" % i, {"kinds": [1]}]), "probe"] for i in range(rng.randint(6, 14))]
        hostile.append(rng.choice([["disconnect"], ["send", "{not json", "garbage"], ["disconnect"]]))
        good = [["wait", 2.0]] + good
    if not flood and rng.random() < 0.1:
        # the relay itself hangs up (1013) on a connection whose queue was touched before: a subscription is
        # closed or replaced while its results are still queued for a slow reader, later a frame makes the
        # handler give up (or the idle time-out fires); the hang-up must complete and clean up
        flood = True
        pre = [h.regular(kind=1) for _ in range(rng.randint(4, 10))]
        hostile = [["send", json.dumps(["REQ", "a", {"kinds": [1]}]), "probe"],
                   rng.choice([["send", json.dumps(["CLOSE", "a"]), "probe"],
                               ["send", json.dumps(["REQ", "a", {"kinds": [1, 7]}]), "probe"]]),
                   ["send", json.dumps(["REQ", "b", {"kinds": [1]}]), "probe"]]
        if rng.random() < 0.7:
            hostile.append(["send", rng.choice(['["REQ","h",{"#e":[[]]}]', '["REQ","h",{"#e":[{}]}]',
                                                '["REQ","h",{"kinds":[[1]]}]', "[" * 3000 + "]" * 3000]), "crash"])
            hostile.append(["send", json.dumps(["REQ", "after", {"kinds": [1]}]), "probe"])
        good = [["wait", 2.0]] + good
    stall = None
    mt_override = None
    if not flood and rng.random() < 0.08:
        # a reader that stalls for longer than the idle time-out while it keeps WRITING: it is not idle, its
        # connection stays usable, what was being sent arrives late but arrives, later commands are answered
        flood = True
        mt_override = rng.choice([5, 30])
        stall = {"sends": [rng.choice([2, 2, 3])], "seconds": mt_override + rng.choice([1.5, 20.0])}
        pre = [h.regular(kind=1) for _ in range(rng.randint(1, 3))]
        live = h.regular(kind=1)
        good = [["send", json.dumps(["REQ", "live", {"kinds": [1]}]), "good"]]
        n_ticks = int(stall["seconds"] / (mt_override / 2.5)) + 3
        for i in range(n_ticks):
            good += [["wait", mt_override / 2.5], ["send", json.dumps(["CLOSE", "nope%d" % i]), "good"]]
        good += [["send", json.dumps(["REQ", "after-stall", {"kinds": [1]}]), "good"]]
        hostile = [["wait", 0.5], ["send", json.dumps(["EVENT", live]), "probe"]]
    crowd = None
    if not flood and rng.random() < 0.02:
        # a long process lifetime: the well-behaved connection holds its subscriptions while a crowd of short
        # connections (same address) comes, sends something and leaves
        flood = True
        crowd = histgen.crowd(rng, h)
        for cl in crowd:
            cl["script"] += [["send", rng.choice(["nonsense", json.dumps(["CLOSE", "zz"]), "[]"])], ["disconnect"]]
        good = [["send", json.dumps(["REQ", "keep1", {"kinds": [1]}]), "good"],
                ["send", json.dumps(["REQ", "keep2", {"kinds": [7]}]), "good"]]
        hostile = [["send", json.dumps(["REQ", "h", {"kinds": [1]}]), "probe"]]
    faults = sorted(rng.sample(range(5, 120), rng.choice([0, 0, 0, 1, 2]))) if backend == "sql" and not flood else []
    limits = rng.choice([None, None, {"ip": {"EVENT": "3/s", "REQ": "4/s"}}, {"global": {"EVENT": "2/s"}, "ip": {"REQ": "2/s,5/m"}}])
    return {"backend": backend, "preload": pre, "faults": faults, "p_buffered": rng.choice([0.0, 0.3, 0.7, 1.0]),
            "rate_limits": limits if not crowd else None, "via_api": rng.random() < 0.5,
            "same_address": rng.random() < 0.3 or bool(crowd), "crowd": crowd, **({"step_cap": 600000} if crowd else {}),
            "message_timeout": mt_override or rng.choice([1800, 1800, 30, 5]),
            "clients": [{"script": hostile, "slow": flood or rng.random() < 0.2, "close_fails": rng.random() < 0.2,
                         "origin": rng.choice(["", "", "https://client.example", "http://bad.actor", "HTTP://BAD.ACTOR"])},
                        {"script": good, "slow": rng.random() < 0.2 and not stall, "late": rng.random() < 0.3 and not stall,
                         "send_stall": stall}],
            "storage_opts": histgen.pool_knob(rng, backend),
            "sched": {**histgen.stall_knob(rng), "client": rng.choice([0.5, 1.0, 3.0]), "sql": rng.choice([0.3, 1.0, 3.0]),
                      "exec": rng.choice([0.2, 1.0]), "writer": rng.choice([0.2, 1.0]),
                      "pool": rng.choice([0.3, 1.0]), "ready": rng.choice([1.0, 4.0, 8.0])}}


def sample(case):
    return {"backend": case["backend"], "faults": case["faults"],
            "hostile": [(i[2], i[1][:70]) if i[0] == "send" else i[0] for i in case["clients"][0]["script"]][:8]}


def parse(text):
    try:
        return json.loads(text)
    except Exception:
        return None


def run(case, sim):
    backend = case["backend"]
    clients = [{"script": [[i[0]] + ([i[1]] if len(i) > 1 else []) for i in c["script"]], "slow": c.get("slow")}
               for c in case["clients"]]
    for extra in (case.get("crowd") or []):
        clients.append({"script": [[i[0]] + ([i[1]] if len(i) > 1 else []) for i in extra["script"]], "addr": extra.get("addr")})
    for i, c in enumerate(clients[:len(case["clients"])]):
        c["origin"] = case["clients"][i].get("origin", "")
        c["close_fails"] = case["clients"][i].get("close_fails", False)
        c["late"] = case["clients"][i].get("late", False)
        c["send_stall"] = case["clients"][i].get("send_stall")
        if case.get("same_address"):
            c["addr"] = "10.9.9.9"          # both connections behind one NAT / proxy address
    w = relay.RelayWorld(sim, backend, clients, preload=case.get("preload"), p_buffered=case.get("p_buffered", 0.0),
                         storage_opts=case.get("storage_opts"),
                         rate_limits=case.get("rate_limits"),
                         cfg={"origin_blacklist": ["http://bad.actor"], "message_timeout": case.get("message_timeout", 1800)})
    w.via_api = bool(case.get("via_api"))

    async def arm(world):
        # faults count from the moment the clients connect (a fault while starting up only
        # prevents the start)
        for n in case.get("faults", []):
            sim.sql.global_faults[sim.sql.call_no + n] = "disk I/O error"
    w.before_clients = arm
    w.run()
    viol = []
    probes = collections.Counter()
    alive = w.final.get("alive", {})
    kinds = {}
    for ci, c in enumerate(case["clients"]):
        k = 0
        for it in c["script"]:
            if it[0] == "send":
                kinds[(ci, k)] = it[2] if len(it) > 2 else "?"
            k += 1
    answered = []
    for c in w.clients:
        role = "hostile" if c.idx == 0 else "good"
        benign = (c.exc is not None and c.exc.startswith("WebSocketDisconnected") and not getattr(c, "accepted", False))
        # (before the connection is accepted there is nothing to clean up, and falcon itself ends a responder
        #  that lets WebSocketDisconnected out: refusing a peer that is already gone is not a failure)
        if c.exc is not None and not benign:
            viol.append({"cls": "handler-raised", "sig": "handler-raised|%s|%s|%s" % (backend, role, c.exc.split(":")[0]),
                         "detail": {"client": c.idx, "exc": c.exc}})
        if not c.finished:
            viol.append({"cls": "handler-never-finishes", "sig": "handler-never-finishes|%s|%s" % (backend, role),
                         "detail": {"client": c.idx}})
        tx = [(s, parse(t)) for s, t in c.transcript if not t.startswith("__CLOSE__")]
        for s, m in tx:
            if m is None:
                probes["unparseable_frames"] += 1
        t_close = min((s for s, t in c.transcript if t.startswith("__CLOSE__")), default=None)
        is_alive = alive.get(c.idx, False)
        if c.closed is not None:
            probes["closed_by_relay_%s" % c.closed] += 1
            idle = getattr(c, "closed_mono", 0.0) - getattr(c, "last_deliver_mono", 0.0)
            timed_out = idle >= case.get("message_timeout", 1800) - 1.0      # the idle timeout: legitimate
            if timed_out:
                probes["idle_timeouts"] += 1
            if role == "good" and not case.get("faults") and not timed_out and c.origin != "http://bad.actor":
                viol.append({"cls": "good-connection-closed", "sig": "good-connection-closed|%s" % backend,
                             "detail": {"code": c.closed}})
        eose = collections.Counter(m[1] for s, m in tx if isinstance(m, list) and len(m) == 2 and m[0] == "EOSE"
                                   and isinstance(m[1], str))
        notices = [s for s, m in tx if isinstance(m, list) and m and m[0] == "NOTICE"]
        oks = [s for s, m in tx if isinstance(m, list) and m and m[0] == "OK"]
        closed_subs = set()
        for fr in c.frames:
            if fr.get("reg_after") is not None and is_alive:
                lost = set(fr.get("reg_before") or []) - set(fr["reg_after"])
                mm = parse(fr["text"])
                verb = mm[0] if isinstance(mm, list) and mm else None
                if len(lost) > 1 or (lost and verb not in ("CLOSE", "REQ")):
                    viol.append({"cls": "frame-dropped-subscriptions", "sig": "frame-dropped-subscriptions|%s|%s|%s" % (
                        backend, role, verb),
                                 "detail": {"frame": fr["text"][:100], "lost": sorted(lost)}})
        for fr in c.frames:
            m = parse(fr["text"])
            kind = kinds.get((c.idx, fr["i"]), "?")
            wellformed_cmd = kind in ("probe", "good")
            if not wellformed_cmd:
                if is_alive:
                    probes["survived_" + kind.split("@")[0].split("+")[0]] += 1
                continue
            hi = fr["t_done"] if fr["t_done"] is not None else 10 ** 12
            if not is_alive:
                continue         # disconnected or closed (allowed reaction): nothing more is owed
            if m[0] == "CLOSE":
                closed_subs.add(m[1])
            if m[0] == "REQ":
                ok = eose[m[1]] >= 1 or any(fr["t_deliver"] <= s <= hi for s in notices)
                later_close = any(parse(f2["text"]) == ["CLOSE", m[1]] for f2 in c.frames if f2["i"] > fr["i"])
                if not ok and not later_close:
                    viol.append({"cls": "probe-unanswered", "sig": "probe-unanswered|%s|%s|REQ" % (backend, role),
                                 "detail": {"req": m[:3], "previous": [kinds.get((c.idx, f2["i"])) for f2 in c.frames
                                                                       if f2["i"] < fr["i"]][-3:]}})
                else:
                    answered.append((c.idx, fr["i"]))
            elif m[0] == "EVENT":
                n = sum(1 for s in oks if fr["t_deliver"] <= s <= hi)
                if n != 1:
                    viol.append({"cls": "probe-unanswered", "sig": "probe-unanswered|%s|%s|EVENT|n=%d" % (backend, role, n),
                                 "detail": {"event": str(m[1])[:120], "oks": n}})
                else:
                    answered.append((c.idx, fr["i"]))
    # "never affects other connections": the only sleeps in the handler are penalties; a connection that has
    # itself earned none yet (no refused or malformed frame of its own so far) is never put to sleep
    for c in w.clients[1:]:
        tx = [(s_, parse(t)) for s_, t in c.transcript if not t.startswith("__CLOSE__")]
        bad = sorted(s_ for s_, m_ in tx if isinstance(m_, list) and m_ and (
            m_[0] == "NOTICE" or (m_[0] == "OK" and len(m_) > 2 and m_[2] is not True)))
        first_bad = bad[0] if bad else 10 ** 12
        early = [(s_, d_) for s_, t_, d_ in getattr(w, "handler_sleeps", []) if t_ is c.task and d_ > 0 and s_ < first_bad]
        if early and not case.get("faults"):
            viol.append({"cls": "good-connection-penalised", "sig": "good-connection-penalised|%s" % backend,
                         "detail": {"slept_seconds": early[0][1], "same_address": bool(case.get("same_address"))}})
    # "never affects other connections": what the well-behaved connection opened and did not close is still
    # registered for it when everything has gone quiet (unless it was closed by the relay or left)
    gc_ = w.clients[1]
    if alive.get(gc_.idx, False) and not case.get("faults"):
        held = []
        for fr in gc_.frames:
            m_ = parse(fr["text"])
            if not (isinstance(m_, list) and len(m_) >= 2 and isinstance(m_[1], str)) or fr.get("reg_after") is None:
                continue
            if m_[0] in ("REQ", "CLOSE"):
                held = [x for x in held if x != m_[1]]
            if m_[0] == "REQ" and m_[1] in fr["reg_after"]:
                held.append(m_[1])          # the relay registered it when the connection asked
        have = set(w.final.get("registry", {}).get(gc_.idx, []))
        lost_ = [x for x in held if x not in have]
        if lost_:
            viol.append({"cls": "registry-lost", "sig": "registry-lost|%s|%s" % (backend, "crowd" if case.get("crowd") else "pair"),
                         "detail": {"held": held, "registered": sorted(have), "connections": len(w.clients)}})
    if w.final.get("registry_end"):
        viol.append({"cls": "registry-leak", "sig": "registry-leak|" + backend,
                     "detail": {"left": {str(k): v for k, v in w.final["registry_end"].items()}}})
    if w.final.get("leftover_tasks"):
        viol.append({"cls": "task-leak", "sig": "task-leak|%s|%s" % (backend, sorted(set(w.final["leftover_tasks"]))[0]),
                     "detail": {"tasks": w.final["leftover_tasks"][:5]}})
    seen, v2 = set(), []
    for v in viol:
        if v["sig"] not in seen:
            seen.add(v["sig"])
            v2.append(v)
    probes["backend_" + backend] = 1
    probes["faults_configured"] = len(case.get("faults", []))
    hostile_alive_probe = any(ci == 0 for ci, _ in answered)
    mk = sorted(set(kinds.values()))
    return {"violations": v2, "nontrivial": hostile_alive_probe, "probes": dict(probes),
            "signature": qcommon.h16((backend, mk, [c.closed for c in w.clients], sorted(answered)))}
