"""
C01 -- a REQ is answered only with accepted events that match one of its filters; filter
contents are pure data.

Store world, both back ends.  Histories (incl. replacements and deletions) followed by REQ filter
lists from a hostile grammar.  On LMDB writer tasks may still be in flight while pool jobs
execute (scheduler decides), so each answer is judged against the union of the durable states
that existed during the query.  Statement integrity: every SQL statement text the engine
receives and every matcher source handed to compile() is inspected.
"""
import ast
import collections
import copy
import math
import re
import sqlite3

from .. import histgen, model, qcommon, kernel
from ..worlds import store

ID = "C01"
LEVEL = "exploration"
CHUNK = 40
BUDGET = {"quick": {"runs": 3000, "wall": 150}, "thorough": {"runs": 150000, "wall": 1200}}
RULE = ("histories of 0-25 accepted events (with deletions/replacements) then 8-30 REQs of 1-6 filters "
        "from a hostile grammar: tag names/values with quotes, backslashes, NUL, %, _, ;, SQL and Python "
        "fragments, non-BMP; ids/authors upper-case, 63/65/66 hex, non-hex; numbers negative, 2^31, 2^63, "
        "inf, floats, bools, strings; wrong container types; user-supplied 'tags'; via subscribe and "
        "run_single_query on SQL-file and LMDB, 40% of runs with the LMDB writer still applying adds "
        "while queries run; non-trivial = some query returned at least one event; distinct = hash of "
        "(backend, multiset of filter shapes, answered counts)")
COMPONENTS = {
    "real": ["NostrQuery validation (pydantic)", "db.Subscription.build_query + SQLite", "kv.planner/"
             "executor/matcher/compile_match_from_query/scanners", "BaseStorage.subscribe"],
    "stub": ["LMDB engine (fake)", "query pool / writer thread / aiosqlite thread (actors)"],
}
ASSUMPTIONS = [
    "lenient reading of malformed conditions: numbers match by numeric value whatever their JSON type, "
    "'#x' keys that are not single-character names with list values count as unknown keys (ignored); "
    "only answers that match under no reasonable reading are reported",
    "statement integrity = client-supplied marker strings never occur outside string literals / bound "
    "parameters of an SQL statement, every statement compiles (EXPLAIN), and LMDB matcher sources stay "
    "inside a fixed AST whitelist",
]
SHRINK = [["ops"], ["ops", "*", 1]]

MARK = "MRK7q"
HOSTILE_VALUES = [
    "' OR 1=1)) --" + MARK, "x' UNION SELECT id,1,1,id,'[]',id,'' FROM events --" + MARK, "''" + MARK,
    "\\'" + MARK, "\\\\" + MARK, "{0}" + MARK, "%s" + MARK, "\x00" + MARK, MARK + "\x00", "%", "_", ";",
    '"' + MARK, "\U0001f600" + MARK, "x" * 300 + MARK, "", " ", "'", "')" + MARK, "\n" + MARK,
    "__import__('os')" + MARK, "') or True or ('" + MARK, ":tag0", ":x" + MARK, "?", "퟿" + MARK,
]
HOSTILE_NAMES = ["'", '"', "\\", "%", "_", "\x00", ";", "\U0001f600", ":", "?", ")", " ", "é", "t", "e"]


def hostile_filter(rng, evs):
    f = histgen.wellformed_filter(rng, evs)
    for _ in range(rng.choice([1, 1, 2, 3])):
        c = rng.random()
        if c < 0.30:
            nm = rng.choice(HOSTILE_NAMES)
            f["#" + nm] = [rng.choice(HOSTILE_VALUES) for _ in range(rng.choice([1, 1, 2]))]
        elif c < 0.40:
            f["#" + rng.choice(["ab", "", "tt", "#t"])] = [rng.choice(HOSTILE_VALUES)]
        elif c < 0.50:
            k = rng.choice(["ids", "authors"])
            base = (rng.choice(evs)["id"] if k == "ids" else rng.choice(evs)["pubkey"]) if evs else "ab" * 32
            f[k] = [rng.choice([base.upper(), base[:63], base + "0", base + "00", base[:-1] + "g",
                                base[:32], "", base + MARK, "x'" + base + "'", base[:62] + "zz"])]
        elif c < 0.62:
            k = rng.choice(["kinds", "since", "until", "limit"])
            v = rng.choice([-1, 2 ** 31, 2 ** 63, 2 ** 64, float("inf"), 1.5, 1.0, True, False, "1", "1 OR 1=1",
                            None, [], {}, -2 ** 63, 0, 10 ** 30])
            f[k] = [v] if k == "kinds" and rng.random() < 0.8 else v
        elif c < 0.70:
            k = rng.choice(["ids", "authors", "kinds", "#e", "#t"])
            f[k] = rng.choice([[], "abc", {"a": 1}, None, 5, [[]], [None], [1, "x"], [["x"]]])
        elif c < 0.76:
            f["tags"] = rng.choice([[["e", ["x"]]], "x", [["'", ["' OR 1=1 --"]]], None, 5])
        elif c < 0.82:
            f["search"] = rng.choice(["x", "' OR 1=1 --" + MARK, 5])
        else:
            nm = rng.choice(["t", "g", "p", "e"])
            cands = [t[1] for e in evs for t in e["tags"] if len(t) > 1 and t[0] == nm and isinstance(t[1], str)]
            good = rng.choice(cands) if cands else "x"
            f["#" + nm] = [good + rng.choice(["'", "''", "\\", "%", "\x00"]), rng.choice(HOSTILE_VALUES)]
    return f


def gen(rng, knobs):
    backend = rng.choice(["sql", "lmdb"])
    h = qcommon.collide_store(rng, n=rng.randint(0, 22))
    for _ in range(rng.choice([0, 1, 2])):
        if h.events:
            h.add(h.deletion())
        h.add(h.replaceable())
    # events that actually carry hostile tag values and names
    for _ in range(rng.choice([0, 1, 2])):
        h.add(h.regular(tags=[[rng.choice(["t", "'", "%", "é"]), rng.choice(HOSTILE_VALUES[:12])]]))
    evs = list(h.events)
    inflight = rng.random() < 0.4
    if inflight:
        # queries interleaved with adds whose writer tasks are still pending
        k = max(1, len(h.ops) // 2)
        tail, h.ops = h.ops[k:], h.ops[:k]
    else:
        tail = []
    nq = rng.randint(8, 30)
    for _ in range(nq):
        n = rng.choice([1, 1, 1, 2, 3, 6])
        fs = [hostile_filter(rng, evs) if rng.random() < 0.8 else histgen.wellformed_filter(rng, evs)
              for _ in range(n)]
        if rng.random() < 0.05:
            fs.append(rng.choice(["x", 5, None, [], [{}]]))
        h.ops.append([rng.choice(["sub", "sub", "query"]), fs])
        if tail and rng.random() < 0.5:
            h.ops.append(tail.pop(0))
    h.ops.extend(tail)
    for _ in range(rng.choice([0, 0, 1, 2])):
        # REQs of different connections running at the same time, same shape, different values: each answer
        # belongs to its own filters
        base = histgen.wellformed_filter(rng, evs, shape=rng.choice(["tags", "tags+kinds", "tags2", "tags+time", "authors+kinds"]))
        batch = []
        for _ in range(rng.choice([2, 2, 3])):
            g = copy.deepcopy(base)
            for k in list(g):
                if k.startswith("#"):
                    cands = [t[1] for e in evs for t in e["tags"] if len(t) >= 2 and t[0] == k[1:] and isinstance(t[1], str)]
                    g[k] = [rng.choice(cands)] if cands and rng.random() < 0.8 else [rng.choice(histgen.TAG_VALS[:8])]
                elif k == "authors" and evs:
                    g[k] = [rng.choice(evs)["pubkey"]]
            batch.append([g])
        h.ops.append(["csubs", batch])
    return {"backend": backend, "ops": h.ops, "settle": not inflight}


def sample(case):
    return {"backend": case["backend"], "settle_each": case["settle"],
            "events": sum(1 for o in case["ops"] if o[0] == "add"),
            "reqs": [o[1] for o in case["ops"] if o[0] in ("sub", "query")][:4]}


# ---- lenient matcher ------------------------------------------------------------------------

def as_int(v):
    """integer a JSON value denotes under the most permissive reading, else None"""
    if isinstance(v, bool):
        return int(v)
    if isinstance(v, int):
        return v
    if isinstance(v, float):
        return int(v) if math.isfinite(v) and v == int(v) else None
    if isinstance(v, str):
        try:
            return int(v.strip())
        except ValueError:
            try:
                x = float(v)
                return int(x) if math.isfinite(x) and x == int(x) else None
            except ValueError:
                return None
    return None


def lenient_match(ev, f):
    if not isinstance(f, dict):
        return False
    for k, v in f.items():
        if k == "ids":
            if not isinstance(v, (list, tuple)) or not any(
                    isinstance(x, str) and x.strip().lower() == ev["id"] for x in v):
                return False
        elif k == "authors":
            cand = [ev["pubkey"]] + model.delegators(ev)
            if not isinstance(v, (list, tuple)) or not any(
                    isinstance(x, str) and x.strip().lower() in cand for x in v):
                return False
        elif k == "kinds":
            if not isinstance(v, (list, tuple)) or not any(as_int(x) == ev["kind"] for x in v):
                return False
        elif k == "since":
            n = as_int(v)
            if v is None:
                continue
            if n is None or not ev["created_at"] >= n:
                return False
        elif k == "until":
            n = as_int(v)
            if v is None:
                continue
            if n is None or not ev["created_at"] <= n:
                return False
        elif isinstance(k, str) and len(k) == 2 and k[0] == "#" and isinstance(v, list):
            have = model.tag_values(ev, k[1])
            if any(isinstance(t, list) and len(t) == 1 and t[0] == k[1] for t in ev["tags"]):
                have = have + [""]     # a bare ["d"] reads as the empty value (NIP-33)
            if not any(isinstance(x, str) and x in have for x in v):
                return False
    return True


# ---- statement integrity ---------------------------------------------------------------------

_LIT = re.compile(r"'(?:[^']|'')*'|x'[0-9a-fA-F]*'", re.S)


def sql_residue(sql):
    """statement text with string and blob literals removed"""
    return _LIT.sub("''", sql)


ALLOWED_NAMES = {"et", "t", "v", "any", "bool", "len", "True"}
ALLOWED_ATTRS = {"hex", "startswith"}
ALLOWED_NODES = (ast.Module, ast.FunctionDef, ast.arguments, ast.arg, ast.Try, ast.ExceptHandler,
                 ast.Return, ast.Import, ast.alias, ast.Expr, ast.BoolOp, ast.And, ast.Or, ast.Compare,
                 ast.In, ast.NotIn, ast.Eq, ast.GtE, ast.LtE, ast.Gt, ast.Lt, ast.Call, ast.Attribute,
                 ast.Subscript, ast.Name, ast.Load, ast.Store, ast.Constant, ast.Tuple, ast.List,
                 ast.ListComp, ast.GeneratorExp, ast.comprehension, ast.UnaryOp, ast.USub)


def matcher_source_problem(src):
    try:
        tree = ast.parse(src)
    except SyntaxError as e:
        return "matcher source does not parse: %s" % (e.msg,)
    fn = tree.body[0] if tree.body else None
    if not isinstance(fn, ast.FunctionDef) or len(tree.body) != 1:
        return "unexpected top-level structure"
    tr = fn.body[0] if fn.body else None
    if not isinstance(tr, ast.Try) or len(fn.body) != 1 or len(tr.body) != 1 \
            or not isinstance(tr.body[0], ast.Return):
        return "unexpected function body"
    for node in ast.walk(tr.body[0]):
        if not isinstance(node, ALLOWED_NODES):
            return "node %s in matcher expression" % type(node).__name__
        if isinstance(node, ast.Name) and node.id not in ALLOWED_NAMES:
            return "name %r in matcher expression" % node.id
        if isinstance(node, ast.Attribute) and node.attr not in ALLOWED_ATTRS:
            return "attribute %r in matcher expression" % node.attr
        if isinstance(node, ast.Call):
            fnode = node.func
            ok = (isinstance(fnode, ast.Name) and fnode.id in ("any", "bool", "len")) or \
                 (isinstance(fnode, ast.Attribute) and fnode.attr in ALLOWED_ATTRS)
            if not ok:
                return "call of %s in matcher expression" % ast.dump(fnode)[:60]
    return None


def run(case, sim):
    backend = case["backend"]
    w = store.StoreWorld(sim, backend, settle_each=case.get("settle", True), track_states=True)
    viol = []
    probes = collections.Counter()
    compiled = []
    built = []
    build_errors = []
    restore = []

    def on_op(o):
        o["now"] = w.env.dump()

    w.on_op = on_op

    async def main(_):
        await w.env.open()
        sim.sql.capture = True
        if backend == "sql":
            from nostr_relay.storage import db as dbmod
            real_build = dbmod.Subscription.build_query

            def spy_build(self, filters):
                try:
                    q, nf = real_build(self, filters)
                except Exception as e:
                    build_errors.append((type(e).__name__, str(e)[:200], repr(filters)[:300]))
                    raise
                try:
                    built.append((q.text, sorted(q._bindparams)))
                except Exception:
                    pass
                return q, nf
            dbmod.Subscription.build_query = spy_build
            restore.append(lambda: setattr(dbmod.Subscription, "build_query", real_build))
        if backend == "lmdb":
            from nostr_relay.storage import kv
            real_compile = compile

            def spy(src, *a, **k):
                compiled.append(src)
                return real_compile(src, *a, **k)
            kv.compile = spy
            kv.compile_match_from_query.cache_clear()
        await w.settle()
        try:
            w.env.states.append((sim.stamp(), w.env.dump()))
            for i, op in enumerate(case["ops"]):
                o = await w.do(i, op)
                w.obs.append(o)
                on_op(o)
            await w.settle()
        finally:
            if backend == "lmdb":
                from nostr_relay.storage import kv
                try:
                    del kv.compile
                except AttributeError:
                    pass
            for r in restore:
                r()
            await w.env.close()
        return w.obs

    try:
        obs = kernel.run_sim(sim, main)
    finally:
        w.env.cleanup()

    shapes = []
    nontrivial = False
    flat = []
    for o in obs:
        if o["op"][0] == "csubs" and o.get("res", [None])[0] == "ok":
            for fs, r in zip(o["op"][1], o["res"][1]):
                flat.append(dict(o, op=["sub", fs], res=r))
        else:
            flat.append(o)
    for o in flat:
        kind = o["op"][0]
        if kind not in ("sub", "query"):
            continue
        filters = o["op"][1]
        r = o["res"]
        got = r[1] if r[0] == "ok" else (r[3] if len(r) > 3 else [])
        probes["queries"] += 1
        if r[0] != "ok":
            probes["query_raised_" + r[1]] += 1
        states = w.env.states_between(o["t0"], o["t1"])
        universe = {}
        for d in states:
            universe.update(d)
        if got:
            nontrivial = True
        fl = [f for f in filters if isinstance(f, dict)]
        shapes.append((tuple(sorted(qcommon.filter_shape(f) for f in fl)), len(got)))
        for e in got:
            if e["id"] not in universe:
                viol.append({"cls": "not-an-accepted-event", "sig": "not-an-accepted-event|%s" % backend,
                             "detail": {"id": e["id"][:12], "filters": filters}})
                continue
            stored = universe[e["id"]]
            if not any(lenient_match(stored, f) for f in fl):
                hostile = sorted({k for f in fl for k in f if not re.fullmatch(r"#?[a-z]+", str(k))})
                viol.append({
                    "cls": "non-matching",
                    "sig": "non-matching|%s|%s|%s" % (backend, kind, "+".join(sorted(
                        {qcommon.filter_shape(f) for f in fl}))[:80]),
                    "detail": {"filters": filters, "event": {"id": e["id"][:8], "kind": stored["kind"],
                                                             "t": stored["created_at"], "tags": stored["tags"][:4],
                                                             "pubkey": stored["pubkey"][:8]},
                               "odd_keys": hostile}})
                break
    # statement integrity
    if backend == "sql":
        seen_sql = set()
        con = None
        for op, name, sql in sim.sql.statements:
            if not op or not op.split("#")[0] in ("sub", "query") or sql in seen_sql:
                continue
            seen_sql.add(sql)
            probes["sql_statements_inspected"] += 1
            res = sql_residue(sql)
            if MARK in res or "UNION SELECT id,1" in res or "OR 1=1" in res:
                viol.append({"cls": "client-text-in-statement", "sig": "client-text-in-statement|sql",
                             "detail": {"sql": sql[:400]}})
            if con is None:
                con = sqlite3.connect(":memory:")
                con.executescript(
                    "CREATE TABLE events(id BLOB PRIMARY KEY, created_at INT, kind INT, pubkey BLOB, "
                    "tags JSON, sig BLOB, content TEXT); CREATE TABLE tags(id BLOB, name TEXT, value TEXT);")
            if sql.lstrip().upper().startswith("SELECT") and "FROM events" in sql:
                try:
                    nparam = sql.count("?")
                    con.execute("EXPLAIN " + sql, [None] * nparam)
                except sqlite3.Error as e:
                    viol.append({"cls": "statement-does-not-compile",
                                 "sig": "statement-does-not-compile|sql|%s" % str(e)[:30],
                                 "detail": {"sql": sql[:400], "error": str(e)}})
        for tname, msg, flt in build_errors[:1]:
            # on a correct tree no filter content makes statement construction fail; the relay
            # swallows the error and answers EOSE, which the transcript cannot distinguish
            viol.append({"cls": "statement-build-fails", "sig": "statement-build-fails|sql|" + tname,
                         "detail": {"error": msg, "filters": flt}})
        # statements as built by the relay (before SQLAlchemy/engine see them)
        seen_b = set()
        for text, names in built:
            if text in seen_b:
                continue
            seen_b.add(text)
            probes["built_statements_inspected"] += 1
            if con is None:
                con = sqlite3.connect(":memory:")
                con.executescript(
                    "CREATE TABLE events(id BLOB PRIMARY KEY, created_at INT, kind INT, pubkey BLOB, "
                    "tags JSON, sig BLOB, content TEXT); CREATE TABLE tags(id BLOB, name TEXT, value TEXT);")
            res = sql_residue(text)
            if MARK in res:
                viol.append({"cls": "client-text-in-statement", "sig": "client-text-in-statement|sql-built",
                             "detail": {"sql": text[:400]}})
            try:
                con.execute("EXPLAIN " + text, {n: None for n in names})
            except sqlite3.Error as e:
                viol.append({"cls": "statement-does-not-compile",
                             "sig": "statement-does-not-compile|sql-built",
                             "detail": {"sql": text[:400], "error": str(e)}})
        if con is not None:
            con.close()
    else:
        for src in compiled:
            probes["matcher_sources_inspected"] += 1
            p = matcher_source_problem(src)
            if p:
                viol.append({"cls": "matcher-source", "sig": "matcher-source|" + p.split(" ")[0],
                             "detail": {"problem": p, "source": src[:400]}})
    seen, v2 = set(), []
    for v in viol:
        if v["sig"] not in seen:
            seen.add(v["sig"])
            v2.append(v)
    probes["backend_" + backend] = 1
    probes["inflight_writer"] = 0 if case.get("settle", True) else 1
    return {"violations": v2, "nontrivial": nontrivial, "probes": dict(probes),
            "signature": qcommon.h16((backend, sorted(shapes)))}
