"""
C08 -- only an event's author can delete it (NIP-09).

Store world, both back ends: multi-author histories with kind-5 events referencing own, foreign,
unknown, malformed, multiple and repeated ids, arriving before or after their targets; afterwards
the referenced ids are probed through get_event, a by-ids query and GET /e/<id>.
"""
import hashlib

from .. import histgen, model, oracles
from ..worlds import store

ID = "C08"
LEVEL = "exploration"
CHUNK = 60
BUDGET = {"quick": {"runs": 4000, "wall": 120}, "thorough": {"runs": 200000, "wall": 1200}}
RULE = ("histories of 4-14 events of 3 authors mixed with kind-5 deletions whose e tags reference own / "
        "foreign / unknown / malformed (non-hex, short, upper-case, one-element) / several / repeated "
        "ids, before or after their targets, on SQL-file and LMDB, each deletion followed by get_event, "
        "by-ids query and /e/<id> probes; non-trivial = an accepted deletion referenced at least one "
        "stored event; distinct = hash of (backend, op kinds, reference classes)")
COMPONENTS = {
    "real": ["DBStorage.process_tags", "kv.WriterThread._post_save (DELETE branch)", "PubkeyIndex scanner",
             "web.ViewEventResource.on_get", "get_event / run_single_query on both back ends"],
    "stub": ["LMDB engine (fake)", "threads (actors)", "falcon request/response objects for /e/<id>"],
}
ASSUMPTIONS = ["a deletion that is not older than its target may or may not remove it",
               "a deletion the relay refuses must change nothing"]
SHRINK = [["ops"]]


def gen(rng, knobs):
    backend = rng.choice(["sql", "lmdb"])
    h = histgen.Hist(rng, nauthors=3)
    n = rng.randint(4, 14)
    for _ in range(n):
        c = rng.random()
        if c < 0.55 or not h.events:
            h.add(h.regular() if rng.random() < 0.8 else h.replaceable())
        else:
            a = rng.choice(h.authors)
            targets = None
            extra = []
            m = rng.random()
            if m < 0.25:
                # malformed references next to a valid own one
                own = [e for e in h.events if e["pubkey"] == h.pub(a) and e["kind"] != 5]
                targets = [rng.choice(own)["id"]] if own else []
                bad = rng.choice(["zz" * 32, "abcd", "", None, "UPPER", "g" * 64, "12345", "0" * 63])
                if bad is None:
                    extra.append(["e"])
                elif bad == "UPPER":
                    own2 = own or h.events
                    targets.append(rng.choice(own2)["id"].upper())
                else:
                    targets.insert(rng.randint(0, len(targets)), bad)
            elif m < 0.35:
                own = [e for e in h.events if e["pubkey"] == h.pub(a)]
                if own:
                    t = rng.choice(own)["id"]
                    targets = [t, t, histgen.hexid(rng)]
            ev = h.deletion(author=a, targets=targets, extra=extra,
                            created_at=histgen.T0 - rng.choice([0, 0, 5, 10, 20, 60, 2000]))
            h.add(ev)
            for t in ev["tags"]:
                if t[0] == "e" and len(t) > 1 and model.is_hex64(t[1]):
                    h.ops.append(["get", t[1]])
                    h.ops.append(["query", [{"ids": [t[1]]}]])
                    h.ops.append(["http", t[1]])
            if rng.random() < 0.2:
                # target arriving after its deletion
                h.add(h.regular(author=a))
    for _ in range(rng.choice([0, 0, 1, 2])):
        # a deletion that arrives BEFORE the event it names: somebody else's deletion must not keep that event
        # out (nor hide it) when it arrives later
        b = rng.choice(h.authors)
        a = rng.choice(h.authors)
        t = h.regular(author=b, created_at=histgen.T0 - rng.choice([30, 300]))
        d = h.deletion(author=a, targets=[t["id"]] + ([histgen.hexid(rng)] if rng.random() < 0.3 else []),
                       created_at=histgen.T0 - rng.choice([1, 5, 400]))
        h.add(d)
        if rng.random() < 0.4:
            h.add(h.regular())
        h.add(t)
        h.ops.append(["get", t["id"]])
        h.ops.append(["query", [{"ids": [t["id"]]}]])
    for _ in range(rng.choice([0, 0, 1, 2])):
        h.ops.insert(rng.randint(1, len(h.ops)), ["restart"])          # the relay restarts somewhere in the history
    return {"backend": backend, "ops": h.ops}


def sample(case):
    return {"backend": case["backend"],
            "ops": [oracles.brief(o[1]) if o[0] == "add" else [o[0], str(o[1])[:12] if len(o) > 1 else ""] for o in case["ops"]]}


def refclass(pre, E, t):
    if len(t) < 2:
        return "bare"
    v = t[1]
    if not model.is_hex64(v):
        return "malformed"
    x = pre.get(v)
    if x is None:
        return "unknown"
    return "own" if x["pubkey"] == E["pubkey"] else "foreign"


def check(obs, backend):
    viol = []
    nontrivial = False
    deleted_must = {}      # id -> deletion brief: must never be served again
    accepted_deletions = []
    for o in obs:
        kind = o["op"][0]
        if kind == "add" and "post" in o:
            E = o["op"][1]
            pre, post = o["pre"], o["post"]
            removed = set(pre) - set(post)
            if E["kind"] != 5:
                # named by an earlier accepted deletion of ANOTHER author and arriving only now: it is stored
                foreign = [d for d in accepted_deletions if d["pubkey"] != E["pubkey"] and any(
                    t[0] == "e" and len(t) > 1 and isinstance(t[1], str) and t[1].lower() == E["id"] for t in d["tags"])]
                own = [d for d in accepted_deletions if d["pubkey"] == E["pubkey"] and any(
                    t[0] == "e" and len(t) > 1 and isinstance(t[1], str) and t[1].lower() == E["id"] for t in d["tags"])]
                if foreign and not own and E["id"] not in pre and E["id"] not in post and not model.is_ephemeral(E["kind"]) \
                        and not model.address(E):
                    viol.append({"cls": "kept-out-by-foreign-deletion", "sig": "kept-out-by-foreign-deletion|" + backend,
                                 "detail": {"E": oracles.brief(E), "res": o["res"], "deletion": oracles.brief(foreign[0])}})
                continue
            classes = sorted({refclass(pre, E, t) for t in E["tags"] if t and t[0] == "e"})
            base = "%s|refs=%s" % (backend, "+".join(classes))
            if not oracles.accepted(o):
                if removed or (E["id"] in post and E["id"] not in pre):
                    viol.append({"cls": "refused-but-changed", "sig": "refused-but-changed|" + base,
                                 "detail": {"E": oracles.brief(E), "res": o["res"],
                                            "removed": [oracles.brief(pre[i]) for i in removed]}})
                continue
            accepted_deletions.append(E)
            must, may = oracles.deletion_sets(pre, E)
            if must or may:
                nontrivial = True
            left = must & set(post)
            if left:
                viol.append({"cls": "not-deleted", "sig": "not-deleted|" + base,
                             "detail": {"E": oracles.brief(E), "left": [oracles.brief(pre[i]) for i in left],
                                        "res": o["res"]}})
            for i in sorted(removed - must - may):
                x = pre[i]
                rel = ("foreign" if x["pubkey"] != E["pubkey"] else "own") + \
                      ("-referenced" if any(t[0] == "e" and len(t) > 1 and t[1].lower() == i for t in E["tags"])
                       else "-unreferenced")
                viol.append({"cls": "wrongly-deleted", "sig": "wrongly-deleted|%s|victim=%s" % (base, rel),
                             "detail": {"E": oracles.brief(E), "victim": oracles.brief(x)}})
            for i in must:
                if i not in post:
                    deleted_must[i] = oracles.brief(E)
            # "and nothing else": the events that stay keep every access path (tag rows / index keys)
            from . import c17
            for v in c17.index_entries(o, backend):
                v["sig"] = v["sig"] + "|after-deletion"
                v["detail"]["E"] = oracles.brief(E)
                viol.append(v)
        elif kind == "add":
            pass
        elif kind in ("get", "query", "http"):
            i = o["op"][1] if kind != "query" else o["op"][1][0]["ids"][0]
            if i in deleted_must:
                r = o["res"]
                served = (kind == "get" and r[0] == "ok" and r[1]) or \
                         (kind == "query" and r[0] == "ok" and r[1]) or \
                         (kind == "http" and r[0] == "ok")
                if served:
                    viol.append({"cls": "served-after-delete", "sig": "served-after-delete|%s|%s" % (backend, kind),
                                 "detail": {"id": i, "deletion": deleted_must[i], "res": str(r)[:200]}})
        # a later re-submission of a deleted event may legitimately store it again
        if kind == "add" and "post" in o:
            for i in list(deleted_must):
                if i in o["post"]:
                    del deleted_must[i]
    return viol, nontrivial


def run(case, sim):
    w, obs = store.run_store(sim, case["backend"], case["ops"], full_gc=True)
    viol, nontrivial = check(obs, case["backend"])
    viol += oracles.restart_changes(obs, case["backend"])
    seen, v2 = set(), []
    for v in viol:
        if v["sig"] not in seen:
            seen.add(v["sig"])
            v2.append(v)
    shape = [(o[0], o[1]["kind"] if o[0] == "add" else "") for o in case["ops"]]
    return {"violations": v2, "nontrivial": nontrivial,
            "probes": {"backend_" + case["backend"]: 1, "effective_deletion": int(nontrivial),
                       "errors": sum(1 for o in obs if o["res"][0] == "err")},
            "signature": hashlib.sha256(repr((case["backend"], shape, [v["sig"] for v in v2])).encode()
                                        + repr([o["res"][0] for o in obs]).encode()).hexdigest()[:16]}
