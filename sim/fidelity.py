"""
Fidelity self-test of the fake LMDB engine (sim/fakes/lmdb) against the real liblmdb C library that
happens to be on this image (/root/miniconda/lib/liblmdb.so), through a minimal ctypes binding that
mirrors py-lmdb's cursor bookkeeping (positioned flag, GET_CURRENT refresh after a mutation).
Optional: skipped with a notice when the library is missing; never a dependency of a registered check.
"""
import ctypes
import os
import random
import shutil
import sys
import tempfile

LIB = "/root/miniconda/lib/liblmdb.so"

FIRST, GET_CURRENT, LAST, NEXT, PREV, SET, SET_KEY, SET_RANGE = 0, 4, 6, 8, 12, 15, 16, 17
NOTFOUND = -30798
BAD_VALSIZE = -30781
RDONLY = 0x20000


class Val(ctypes.Structure):
    _fields_ = [("mv_size", ctypes.c_size_t), ("mv_data", ctypes.c_void_p)]


def _val(b):
    buf = ctypes.create_string_buffer(b, len(b))
    return Val(len(b), ctypes.cast(buf, ctypes.c_void_p)), buf


def _bytes(v):
    return ctypes.string_at(v.mv_data, v.mv_size) if v.mv_size else b""


class RealEnv:
    def __init__(self, path):
        self.l = ctypes.CDLL(LIB)
        self.l.mdb_strerror.restype = ctypes.c_char_p
        self.env = ctypes.c_void_p()
        self._c(self.l.mdb_env_create(ctypes.byref(self.env)))
        self._c(self.l.mdb_env_set_mapsize(self.env, ctypes.c_size_t(1 << 24)))
        os.makedirs(path, exist_ok=True)
        self._c(self.l.mdb_env_open(self.env, path.encode(), 0, 0o644))
        self.dbi = None

    def _c(self, rc):
        if rc != 0:
            raise RuntimeError("lmdb rc=%d %s" % (rc, self.l.mdb_strerror(rc)))

    def begin(self, write=False):
        return RealTxn(self, write)

    def close(self):
        self.l.mdb_env_close(self.env)


class RealTxn:
    def __init__(self, env, write):
        self.e = env
        self.l = env.l
        self.txn = ctypes.c_void_p()
        env._c(self.l.mdb_txn_begin(env.env, None, 0 if write else RDONLY, ctypes.byref(self.txn)))
        dbi = ctypes.c_uint()
        env._c(self.l.mdb_dbi_open(self.txn, None, 0, ctypes.byref(dbi)))
        self.dbi = dbi
        self.mutations = 0

    def get(self, key):
        k, kb = _val(key)
        d = Val()
        rc = self.l.mdb_get(self.txn, self.dbi, ctypes.byref(k), ctypes.byref(d))
        if rc == NOTFOUND:
            return None
        if rc == BAD_VALSIZE:
            return "BADVALSIZE"
        self.e._c(rc)
        return _bytes(d)

    def put(self, key, value):
        k, kb = _val(key)
        d, db = _val(value)
        rc = self.l.mdb_put(self.txn, self.dbi, ctypes.byref(k), ctypes.byref(d), 0)
        if rc == BAD_VALSIZE:
            return "BADVALSIZE"
        self.e._c(rc)
        self.mutations += 1
        return True

    def delete(self, key):
        k, kb = _val(key)
        rc = self.l.mdb_del(self.txn, self.dbi, ctypes.byref(k), None)
        self.mutations += 1
        if rc == NOTFOUND:
            return False
        if rc == BAD_VALSIZE:
            return "BADVALSIZE"
        self.e._c(rc)
        return True

    def cursor(self):
        return RealCursor(self)

    def commit(self):
        self.e._c(self.l.mdb_txn_commit(self.txn))

    def abort(self):
        self.l.mdb_txn_abort(self.txn)


class RealCursor:
    """py-lmdb's Cursor logic on top of the raw calls"""

    def __init__(self, txn):
        self.t = txn
        self.l = txn.l
        self.cur = ctypes.c_void_p()
        txn.e._c(self.l.mdb_cursor_open(txn.txn, txn.dbi, ctypes.byref(self.cur)))
        self.positioned = False
        self._key = b""
        self.last_mutation = txn.mutations

    def _get(self, op, key=None):
        k = Val()
        kb = None
        if key is not None:
            k, kb = _val(key)
        d = Val()
        rc = self.l.mdb_cursor_get(self.cur, ctypes.byref(k), ctypes.byref(d), op)
        self.positioned = rc == 0
        self.last_mutation = self.t.mutations
        if rc == 0:
            self._key = _bytes(k)
        else:
            self._key = b""
            if rc not in (NOTFOUND, 22):       # EINVAL: GET_CURRENT on an unset cursor
                self.t.e._c(rc)
        return rc == 0

    def first(self):
        return self._get(FIRST)

    def last(self):
        return self._get(LAST)

    def next(self):
        return self._get(NEXT)

    def prev(self):
        return self._get(PREV)

    def set_range(self, key):
        if len(key) == 0:
            return self.first()
        return self._get(SET_RANGE, key)

    def set_key(self, key):
        return self._get(SET_KEY, key)

    def key(self):
        if self.positioned and self.last_mutation != self.t.mutations:
            self._get(GET_CURRENT)
        return self._key

    def close(self):
        self.l.mdb_cursor_close(self.cur)


def random_key(rng):
    n = rng.choice([1, 1, 2, 2, 3])
    return bytes(rng.choice([0, 1, 2, 9, 0xee, 0xff]) for _ in range(n))


def one_sequence(rng, fake_mod, nops=40):
    d = tempfile.mkdtemp(prefix="nrsim-fid-", dir="/dev/shm")
    real = RealEnv(d)
    fake_mod.reset_all()
    fake = fake_mod.open(path=d)
    trace = []
    try:
        for rnd in range(rng.randint(1, 4)):
            write = rng.random() < 0.7
            rt = real.begin(write)
            ft = fake.begin(write=write)
            rc = fc = None
            last_fail = None
            moved_at = -1
            for _ in range(rng.randint(1, nops)):
                op = rng.choice(["put", "put", "delete", "get", "cursor", "set_range", "set_range", "prev", "prev",
                                 "next", "key", "first", "last", "put511"])
                k = random_key(rng)
                if op in ("put", "delete", "put511") and not write:
                    continue
                if op in ("put", "put511") and rc is not None:
                    # kv.py writes its index keys before it opens a scanner and only deletes while one
                    # is open; puts under an open cursor are outside the envelope
                    continue
                if op == "put":
                    r, f = rt.put(k, b"v" + k), ft.put(k, b"v" + k)
                elif op == "put511":
                    kk = k * 200
                    kk = kk[:rng.choice([510, 511, 512])]
                    r = rt.put(kk, b"")
                    try:
                        f = ft.put(kk, b"")
                    except fake_mod.BadValsizeError:
                        f = "BADVALSIZE"
                elif op == "delete":
                    r, f = rt.delete(k), ft.delete(k)
                elif op == "get":
                    r, f = rt.get(k), ft.get(k)
                elif op == "cursor":
                    if rc is not None:
                        rc.close()
                    rc, fc = rt.cursor(), ft.cursor()
                    last_fail = None
                    r = f = "new"
                elif rc is None:
                    continue
                elif last_fail == "prev" and op in ("prev", "next"):
                    continue      # kv.py stops (or repositions) when prev() fails
                elif last_fail == "next" and op in ("prev", "next"):
                    continue      # kv.py never steps a cursor after iternext() ran off the end
                elif last_fail == "set_range" and op == "next":
                    continue
                elif op in ("prev", "key") and not rc.positioned and rc.last_mutation != rt.mutations:
                    # an unpositioned cursor (failed set_range) is only ever stepped right away in
                    # kv.py, never after further writes
                    continue
                elif op == "next" and not (rc.positioned and moved_at == rt.mutations):
                    # outside the envelope kv.py uses: it only calls next()/iternext() on a cursor
                    # that set_range has just positioned, in a read transaction
                    continue
                elif op == "set_range":
                    r, f = rc.set_range(k), fc.set_range(k)
                    last_fail = None if r else "set_range"
                    moved_at = rt.mutations
                elif op == "key":
                    r, f = rc.key(), bytes(fc.key())
                else:
                    r, f = getattr(rc, op)(), getattr(fc, op)()
                    last_fail = None if r else op
                    moved_at = rt.mutations
                    r = (r, rc.key())
                    f = (f, bytes(fc.key()))
                trace.append((op, k.hex(), r, f))
                if r != f:
                    return trace
            if rc is not None:
                rc.close()
            if rng.random() < 0.8:
                rt.commit()
                ft.commit()
            else:
                rt.abort()
                ft.abort()
        # final contents
        rt = real.begin(False)
        ft = fake.begin()
        rc, fc = rt.cursor(), ft.cursor()
        a, b = [], []
        ok = rc.first()
        while ok:
            a.append(rc.key())
            ok = rc.next()
        ok = fc.first()
        while ok:
            b.append(bytes(fc.key()))
            ok = fc.next()
        rc.close()
        rt.abort()
        ft.abort()
        if a != b:
            trace.append(("final", "", a, b))
            return trace
        return None
    finally:
        real.close()
        shutil.rmtree(d, ignore_errors=True)


def main(a):
    if not os.path.exists(LIB):
        print("fidelity: %s not present, skipped" % LIB)
        return 0
    here = os.path.dirname(os.path.abspath(__file__))
    sys.path.insert(0, os.path.join(here, "fakes"))
    import lmdb as fake_mod
    assert fake_mod.__file__.startswith(here)
    n = a.runs or 20000
    rng = random.Random(int(a.seed) if str(a.seed).isdigit() else 0)
    for i in range(n):
        t = one_sequence(rng, fake_mod)
        if t is not None:
            print("fidelity: DIFFERENCE in sequence %d (real vs fake):" % i)
            for row in t[-8:]:
                print("   ", row)
            return 1
    print("fidelity: %d random operation sequences, fake lmdb == liblmdb 0.9.31 on every observable result" % n)
    return 0
