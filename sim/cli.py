"""vcheck command line"""
import argparse
import json
import os
import sys


def main(argv=None):
    ap = argparse.ArgumentParser(prog="vcheck")
    ap.add_argument("target", help="property id (C01..C20) or 'selftest'")
    ap.add_argument("sub", nargs="?", help="selftest name")
    ap.add_argument("--tier", default=os.environ.get("VERIF_TIER", "quick"))
    ap.add_argument("--seed", default=os.environ.get("VERIF_SEED", "0"))
    ap.add_argument("--jobs", type=int, default=int(os.environ.get("VERIF_JOBS", "16")))
    ap.add_argument("--runs", type=int, default=None)
    ap.add_argument("--replay", default=None)
    ap.add_argument("--verbose", action="store_true")
    ap.add_argument("--prop", default=None)
    a = ap.parse_args(argv)
    if os.environ.get("VERIF_TIER"):
        a.tier = os.environ["VERIF_TIER"]
    try:
        seed = int(a.seed)
    except ValueError:
        seed = int.from_bytes(a.seed.encode(), "big") % (2 ** 31)
    from . import runner
    if a.target == "selftest":
        from . import selftest
        return selftest.main(a.sub, a)
    pid = a.target.upper()
    if a.replay:
        runner.preload()
        rp, outs = runner.replay_file(a.replay, verbose=True, times=2)
        r = outs[0]
        if "harness_error" in r:
            sys.stderr.write(r["harness_error"] + "\n")
            return 2
        if a.verbose:
            for line in r.get("log", []):
                print(line)
        print("digest run1=%s run2=%s expected=%s" % (r["digest"], outs[1].get("digest"),
                                                    rp.get("expect", {}).get("digest")))
        hit = False
        for v in r["violations"]:
            print("violation class=%s sig=%s" % (v["cls"], v["sig"]))
            print("  detail=%s" % json.dumps(v.get("detail"), sort_keys=True, default=str)[:3000])
            exp = rp.get("expect", {})
            if v["cls"] == exp.get("cls") and v["sig"] == exp.get("sig"):
                hit = True
        if hit:
            print("VIOLATION property=%s replay=%s" % (pid, os.path.abspath(a.replay)))
            return 1
        print("replay did not reproduce the expected violation")
        return 0
    return runner.run_check(pid, tier=a.tier, seed=seed, nproc=a.jobs, runs=a.runs)


if __name__ == "__main__":
    sys.exit(main())
