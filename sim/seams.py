"""
Seams: where the simulator takes ownership of nondeterminism.  Nothing in /repo is edited;
every seam is a module attribute or an injected argument.

  install_process()  -- once per simulator process, *before* nostr_relay is imported:
                        sys.path (repo under test, fake lmdb/msgpack), time, entropy
  activate(sim)      -- per run: points the patched functions at this run's Sim
  SqlSeam            -- aiosqlite worker thread replaced by scheduler-owned job queues,
                        statement counting, fault injection, crash images
  KvSeam             -- kv.py writer thread / query pool / analysis thread
"""
import os
import sys
import time as _time
import types
import queue as _queue
import sqlite3
import shutil
import collections

from . import kernel

CUR = None          # the active Sim
_INSTALLED = False
REPO = os.environ.get("VERIF_REPO", "/repo")
HERE = os.path.dirname(os.path.abspath(__file__))


def _wall():
    s = CUR
    return s.clock.wall() if s is not None else kernel.REAL_TIME()


def _perf():
    s = CUR
    return s.clock.perf() if s is not None else kernel.REAL_PERF()


_real_urandom = os.urandom


def _urandom(n):
    s = CUR
    return s.entropy.urandom(n) if s is not None else _real_urandom(n)


def install_process(knobs=None):
    """patch process-wide seams and import the relay from the tree under test"""
    global _INSTALLED
    if _INSTALLED:
        return
    _INSTALLED = True
    fakes = os.path.join(HERE, "fakes")
    for p in (fakes, REPO):
        if p in sys.path:
            sys.path.remove(p)
    sys.path.insert(0, fakes)
    sys.path.insert(0, REPO)
    # clocks: `from time import time` in the relay binds these functions
    _time.time = _wall
    _time.perf_counter = _perf
    # entropy: secrets.token_hex -> random.SystemRandom -> random._urandom
    import random
    import secrets  # noqa
    os.urandom = _urandom
    random._urandom = _urandom
    knobs = knobs or {}
    import nostr_relay.config as cfgmod
    if not os.path.abspath(cfgmod.__file__).startswith(os.path.abspath(REPO) + os.sep):
        raise RuntimeError("nostr_relay imported from %s, expected %s" % (cfgmod.__file__, REPO))
    # a deployment may import parts of the relay before its configuration file is loaded (`from nostr_relay.storage
    # import get_storage` at the top of a module, then Config.load(), then get_storage()): the knob below then
    # arrives after those imports
    for name in knobs.get("early_import", []):
        __import__(name)
    # knobs that are baked in at import time of storage.base
    if "max_limit" in knobs:
        cfgmod.ConfigClass.max_limit = knobs["max_limit"]
    import aiosqlite.core as aq
    aq.SimpleQueue = _TxQueue
    aq.Thread = _NoThread
    import logging
    logging.disable(logging.CRITICAL)
    import warnings
    warnings.simplefilter("ignore")


def activate(sim):
    global CUR
    CUR = sim


def deactivate():
    global CUR
    CUR = None


# ------------------------------------------------------------------------------------------
# aiosqlite: worker thread -> scheduler-owned per-connection FIFO
# ------------------------------------------------------------------------------------------

class _NoThread:
    def __init__(self, *a, **k):
        pass

    def start(self):
        pass

    def join(self, *a):
        pass

    def is_alive(self):
        return False


class SqlFault(Exception):
    pass


class SqlSeam:
    """per-run state of the SQL seam (held on the Sim as sim.sql)"""

    def __init__(self, sim):
        self.sim = sim
        self.conns = []
        self.op = None             # current bracketed logical operation label
        self.op_calls = 0          # engine calls inside the current operation
        self.fault_plan = {}       # (op_label, k) -> ("error", text) | ("error_after", text)
        self.on_call = None        # callback(op, k, name, sql) before each engine call
        self.statements = []       # (op, name, sql) -- optional capture
        self.capture = False
        self.busy_retries = 0
        self.total_calls = 0
        self.after_commit = None   # callback() after a successful COMMIT
        self.call_no = 0           # every execute/executemany/commit of the run
        self.global_faults = {}    # call_no -> error text (faults not tied to a bracketed op)
        sim.stall_hooks.append(self._on_stall)

    def _on_stall(self):
        """nothing else can run: a blocked connection's busy timeout expires"""
        hit = False
        for c in self.conns:
            if c.blocked:
                c.blocked = False
                c.expired = True
                hit = True
        return hit

    def begin_op(self, label):
        self.op = label
        self.op_calls = 0

    def end_op(self):
        self.op = None


class _TxQueue(kernel.Actor):
    """stands in for aiosqlite's SimpleQueue: one per DBAPI connection"""

    kind = "sql"
    weight_key = "sql"

    def __init__(self):
        self.sim = CUR
        self.q = collections.deque()
        self.blocked = False
        self.expired = False
        self.closed = False
        if self.sim is None:
            raise RuntimeError("aiosqlite connection outside a simulation run")
        seam = self.sim.sql
        self.index = len(seam.conns)
        seam.conns.append(self)
        # a stalled connection (slow disk / busy worker thread): the run's profile may name a residue class of
        # connection numbers whose jobs the scheduler picks much more rarely than everything else
        prof = self.sim.profile
        if prof.get("stall_mod") and self.index % int(prof["stall_mod"]) == int(prof.get("stall_rem", 0)):
            self.weight_scale = float(prof.get("stall_scale", 0.02))
            self.sim.faults["sql_conn_stalled"] += 1
        self.sim.add_actor(self)

    # queue API used by aiosqlite
    def put_nowait(self, item):
        self.q.append(item)

    put = put_nowait

    def get(self):  # never called (no thread)
        raise RuntimeError("no worker thread in simulation")

    # actor API
    def ready(self):
        return bool(self.q) and not self.blocked

    def label(self):
        return "sql#%d" % self.index

    def fire(self):
        from aiosqlite.core import _STOP_RUNNING_SENTINEL
        sim = self.sim
        seam = sim.sql
        future, function = self.q[0]
        name, sql = _describe(function)
        counted = name in ("execute", "executemany", "commit", "executescript")
        k = None
        if counted and seam.op is not None:
            k = seam.op_calls
            seam.op_calls += 1
            seam.total_calls += 1
            if seam.on_call is not None:
                seam.on_call(seam.op, k, name, sql)
        if seam.capture and name in ("execute", "executemany"):
            seam.statements.append((seam.op, name, sql))
        plan = seam.fault_plan.get((seam.op, k)) if k is not None else None
        if counted and not sim.draining:
            n = seam.call_no
            seam.call_no += 1
            if plan is None and n in seam.global_faults:
                plan = ("error", seam.global_faults[n])
        try:
            if plan is not None and plan[0] == "error":
                sim.faults["sql_error"] += 1
                raise sqlite3.OperationalError(plan[1])
            result = function()
            if plan is not None and plan[0] == "error_after":
                sim.faults["sql_error_after"] += 1
                raise sqlite3.OperationalError(plan[1])
        except sqlite3.OperationalError as e:
            if getattr(e, "sqlite_errorcode", None) == 5 and plan is None:
                # SQLITE_BUSY with timeout=0: wait (virtually) for the lock holder
                seam.busy_retries += 1
                if not self.expired:
                    self.blocked = True
                    sim.note("busy", self.label())
                    if k is not None:
                        seam.op_calls -= 1
                        seam.total_calls -= 1
                    return
            self.q.popleft()
            self.expired = False
            self._unblock_others()
            if future is not None and not future.done():
                future.set_exception(e)
            return
        except BaseException as e:  # noqa
            if isinstance(e, (KeyboardInterrupt, SystemExit)):
                raise
            self.q.popleft()
            self._unblock_others()
            if future is not None and not future.done():
                future.set_exception(e)
            return
        self.q.popleft()
        self.expired = False
        self._unblock_others()
        if future is not None and not future.done():
            future.set_result(result)
        if name == "commit" and seam.after_commit is not None:
            seam.after_commit()
        if result is _STOP_RUNNING_SENTINEL:
            self.closed = True
            sim.remove_actor(self)

    def _unblock_others(self):
        for c in self.sim.sql.conns:
            if c is not self and c.blocked:
                c.blocked = False


def _describe(function):
    """(method name, sql text) of a queued aiosqlite job"""
    f = getattr(function, "func", function)
    name = getattr(f, "__name__", "?")
    sql = ""
    args = getattr(function, "args", ())
    if name in ("execute", "executemany", "executescript") and args:
        sql = args[0] if isinstance(args[0], str) else ""
    return name, sql


def sqlite_image(path, dest):
    """byte copy of the database as a killed process leaves it (db + wal + shm)"""
    os.makedirs(dest, exist_ok=True)
    base = os.path.basename(path)
    for suf in ("", "-wal", "-shm"):
        src = path + suf
        if os.path.exists(src):
            shutil.copyfile(src, os.path.join(dest, base + suf))
    return os.path.join(dest, base)


# ------------------------------------------------------------------------------------------
# kv.py: writer thread, query pool, analysis thread
# ------------------------------------------------------------------------------------------

class _Park(BaseException):
    """unwinds WriterThread.run() between two tasks"""


class SimQueue:
    """queue.SimpleQueue replacement for the LMDB writer"""

    def __init__(self):
        self.q = collections.deque()
        self.armed = False

    def put(self, item):
        self.q.append(item)
        if CUR is not None:
            CUR.note("wq.put", _task_label(item))

    put_nowait = put

    def get(self, block=True, timeout=None):
        if not block:
            return self.get_nowait()
        if not self.armed:
            raise _Park()
        self.armed = False
        return self.q.popleft()

    def get_nowait(self):
        # whatever is queued at this instant (a writer that drains its queue into one batch)
        if not self.q:
            raise _queue.Empty()
        return self.q.popleft()

    def qsize(self):
        return len(self.q)

    def empty(self):
        return not self.q


def _task_label(item):
    if item is None:
        return "stop"
    op, args = item
    a = args[0]
    ident = getattr(a, "id", a)
    if not isinstance(ident, str):
        ident = str(type(ident).__name__)
    return "%s:%s" % (op, ident[:8])


class WriterActor(kernel.Actor):
    """steps the real WriterThread.run() one task at a time on the simulator thread"""

    kind = "writer"
    weight_key = "writer"

    def __init__(self, sim, thread):
        self.sim = sim
        self.thread = thread
        self.finished = False
        self.tasks_done = 0
        self.before_task = None   # callback(task)
        self.after_task = None    # callback(task)

    def ready(self):
        return (not self.finished) and bool(self.thread.queue.q)

    def label(self):
        return "writer:" + _task_label(self.thread.queue.q[0])

    def fire(self):
        q = self.thread.queue
        task = q.q[0]
        if self.before_task:
            self.before_task(task)
        q.armed = True
        try:
            self.thread.run()
            self.finished = True      # run() returned: stop sentinel seen
        except _Park:
            pass
        self.tasks_done += 1
        if self.after_task:
            self.after_task(task)

    def drain(self):
        while self.ready():
            self.fire()


class SimPool:
    """futures.ThreadPoolExecutor replacement: jobs complete when the scheduler says so"""

    def __init__(self, max_workers=None, **k):
        self.max_workers = max_workers
        self.shut = False

    def submit(self, fn, *args, **kwargs):
        from concurrent.futures import Future
        fut = Future()
        sim = CUR

        def complete():
            if not fut.set_running_or_notify_cancel():
                return
            try:
                res = fn(*args, **kwargs)
            except BaseException as e:  # noqa
                fut.set_exception(e)
            else:
                fut.set_result(res)

        if sim is None:
            complete()
        else:
            sim.job("pool", "pool:%s" % getattr(fn, "__name__", "fn"), complete)
        return fut

    def shutdown(self, wait=True, **k):
        self.shut = True

    # the rest of the Executor interface, so that a change in /repo that uses it meets a seam and not an
    # AttributeError of the harness
    def map(self, fn, *iterables, timeout=None, chunksize=1):
        futs = [self.submit(fn, *args) for args in zip(*iterables)]

        def results():
            for f in futs:
                yield f.result()
        return results()

    def __enter__(self):
        return self

    def __exit__(self, *exc):
        self.shutdown()
        return False


def install_kv(sim):
    """import kv.py on top of the fakes and patch its thread seams; returns the module"""
    import lmdb  # the fake (sys.path order)
    if not lmdb.__file__.startswith(HERE):
        raise RuntimeError("real lmdb imported?")
    from nostr_relay.storage import kv

    if not getattr(kv, "_sim_patched", False):
        class _Seamed(types.SimpleNamespace):
            """a module with some names replaced; everything else is the real thing"""
            def __init__(self, real, **repl):
                super().__init__(**repl)
                self._real = real

            def __getattr__(self, name):
                return getattr(self.__dict__["_real"], name)

        import concurrent.futures as _futures
        kv.queue = _Seamed(_queue, SimpleQueue=SimQueue)
        kv.futures = _Seamed(_futures, ThreadPoolExecutor=SimPool)

        def _start(self):
            s = CUR
            self._actor = WriterActor(s, self)
            s.add_actor(self._actor)
            s.kv_writers.append(self._actor)

        def _join(self, timeout=None):
            a = getattr(self, "_actor", None)
            if a is not None:
                a.drain()
                if CUR is not None:
                    CUR.remove_actor(a)

        kv.WriterThread.start = _start
        kv.WriterThread.join = _join

        def _analyze(plans, later=True, log=None):
            return None

        _analyze.ANALYSIS_THREAD = None
        kv.analyze = _analyze
        kv._sim_patched = True
    return kv
