"""
Deterministic simulation kernel: choice sequence, virtual clock, entropy stream,
event log, external actors and the asyncio event loop that the scheduler owns.

Nothing in here imports nostr_relay.
"""
import asyncio
import collections
import hashlib
import heapq
import random
import time as _time

REAL_TIME = _time.time
REAL_PERF = _time.perf_counter

EPOCH0 = 1_700_000_000  # virtual wall clock at loop time 0


class SimDeadlock(Exception):
    """nothing is enabled although the driver has not finished"""


class SimStepCap(Exception):
    """a run exceeded its action cap (harness error, never a verdict)"""


class Chooser:
    """One stream decides everything.  generate: seeded PRNG; replay: recorded list."""

    def __init__(self, seed_str=None, replay=None):
        self.replay = list(replay) if replay is not None else None
        self.rng = random.Random(seed_str) if replay is None else None
        self.pos = 0
        self.choices = []

    def choose(self, n, weights=None):
        if n <= 1:
            return 0
        if self.replay is not None:
            c = self.replay[self.pos] if self.pos < len(self.replay) else 0
            self.pos += 1
            if c >= n or c < 0:
                c = n - 1 if c >= n else 0
        elif weights is not None:
            tot = sum(weights)
            if tot <= 0:
                c = 0
            else:
                x = self.rng.random() * tot
                c = 0
                acc = 0.0
                for i, w in enumerate(weights):
                    acc += w
                    if x < acc:
                        c = i
                        break
                else:
                    c = n - 1
        else:
            c = self.rng.randrange(n)
        self.choices.append(c)
        return c

    def flip(self, p):
        """True with probability p (generate) / recorded (replay); default False."""
        return self.choose(2, (1.0 - p, p)) == 1


class SimClock:
    """wall = EPOCH0 + monotonic + skew;  monotonic never goes back."""

    def __init__(self, epoch=EPOCH0):
        self.mono = 0.0
        self.epoch = epoch
        self.skew = 0.0

    def wall(self):
        return self.epoch + self.mono + self.skew

    def perf(self):
        return self.mono


class Entropy:
    """seeded replacement for os.urandom with a draw log"""

    def __init__(self, seed_str):
        self.rng = random.Random("entropy/" + str(seed_str))
        self.draws = []  # (nbytes, hex)

    def urandom(self, n):
        b = self.rng.randbytes(n)
        self.draws.append((n, b.hex()))
        return b


class EventLog:
    def __init__(self, keep=False):
        self.h = hashlib.sha256()
        self.n = 0
        self.keep = keep
        self.entries = []

    def add(self, t, kind, label=""):
        self.n += 1
        line = "%d|%.6f|%s|%s\n" % (self.n, t, kind, label)
        self.h.update(line.encode("utf-8", "backslashreplace"))
        if self.keep:
            self.entries.append(line.rstrip("\n"))

    def digest(self):
        return self.h.hexdigest()[:24]


class Actor:
    """an external source of events the scheduler decides about"""

    kind = "actor"
    weight_key = "actor"

    def ready(self):
        return False

    def fire(self):
        raise NotImplementedError

    def label(self):
        return self.kind


class Job(Actor):
    """one-shot external completion (executor job, pool job, slow send, ...)"""

    def __init__(self, sim, kind, label, fn):
        self.sim = sim
        self.kind = kind
        self.weight_key = kind
        self._label = label
        self.fn = fn
        self.done = False

    def ready(self):
        return not self.done

    def fire(self):
        self.done = True
        self.sim.remove_actor(self)
        self.fn()

    def label(self):
        return self._label


DEFAULT_PROFILE = {
    "ready": 4.0,      # weight of "run head of ready queue"
    "actor": 1.0,      # default weight of an external actor
    "timer_near": 0.3,  # advance to a timer < 1 s away while externals pend
    "timer_far": 0.0,  # ... a timer further away (a stall of everything else)
}


class Sim:
    """Scheduler: one step = one action chosen among the enabled ones."""

    def __init__(self, chooser, seed_str="0", profile=None, step_cap=20000,
                 keep_log=False, epoch=EPOCH0):
        self.ch = chooser
        self.clock = SimClock(epoch)
        self.entropy = Entropy(seed_str)
        self.log = EventLog(keep=keep_log)
        self.actors = []
        self.profile = dict(DEFAULT_PROFILE)
        if profile:
            self.profile.update(profile)
        self.step_cap = step_cap
        self.steps = 0
        self.seq = 0          # global sequence number for history stamps
        self.faults = collections.Counter()   # fired faults by kind
        self.probes = collections.Counter()
        self.draining = False  # drain phase: FIFO, no faults
        self.quiet_waiters = []
        self.loop = SimLoop(self)
        self.action_counts = collections.Counter()
        self.hooks_after_step = []
        self.stall_hooks = []     # called when nothing but timers is enabled; True = retry
        self.sql = None
        self.kv_writers = []

    # -- bookkeeping ---------------------------------------------------------
    def stamp(self):
        self.seq += 1
        return self.seq

    def add_actor(self, a):
        self.actors.append(a)
        return a

    def remove_actor(self, a):
        try:
            self.actors.remove(a)
        except ValueError:
            pass

    def job(self, kind, label, fn):
        return self.add_actor(Job(self, kind, label, fn))

    def note(self, kind, label=""):
        self.log.add(self.clock.mono, kind, label)

    def choose(self, n, weights=None):
        return self.ch.choose(n, weights)

    def flip(self, p):
        if self.draining:
            return False
        return self.ch.flip(p)

    # -- quiescence ------------------------------------------------------------
    def quiescent(self, horizon=0.0, unless=None, patience=5000.0):
        """awaitable: resolves when the ready queue is empty, no actor is enabled, no timer is
        due within `horizon` virtual seconds and `unless()` (e.g. "a handler is in the middle of a
        command, sleeping") is false.  While `unless()` holds the clock keeps advancing, for at most
        `patience` virtual seconds (then the waiter is released and the caller judges liveness)."""
        fut = self.loop.create_future()
        self.quiet_waiters.append((fut, horizon, unless, [None, patience]))
        return fut

    def is_quiet(self):
        if self.loop._ready:
            return False
        return not any(a.ready() for a in self.actors)

    # -- the step ----------------------------------------------------------------
    def step(self):
        loop = self.loop
        self.steps += 1
        if self.steps > self.step_cap:
            raise SimStepCap("step cap %d exceeded" % self.step_cap)
        loop._move_due_timers()
        acts = []
        weights = []
        prof = self.profile
        if loop._ready:
            acts.append(("ready", None))
            weights.append(prof["ready"])
        barrier = []
        for a in self.actors:
            if a.ready():
                if getattr(a, "is_barrier", False):
                    barrier.append(a)
                    continue
                acts.append(("actor", a))
                weights.append(prof.get(a.weight_key, prof["actor"]) * getattr(a, "weight_scale", 1.0))
        if not acts and barrier:
            for a in barrier:
                acts.append(("actor", a))
                weights.append(1.0)
        if not loop._ready and not acts and self.stall_hooks:
            if any([h() for h in self.stall_hooks]):
                self.note("stall")
                return
        if not loop._ready:
            nxt = loop._next_timer()
            if not acts and self.quiet_waiters:
                gap = None if nxt is None else nxt - self.clock.mono
                keep, woke = [], False
                for w, hz, unless, pat in self.quiet_waiters:
                    if w.done():
                        continue
                    busy = False
                    if unless is not None and gap is not None and unless():
                        if pat[0] is None:
                            pat[0] = self.clock.mono
                        busy = (self.clock.mono - pat[0]) <= pat[1]
                    if (gap is None or gap > hz) and not busy:
                        w.set_result(None)
                        woke = True
                    else:
                        keep.append((w, hz, unless, pat))
                self.quiet_waiters = keep
                if woke:
                    self.note("quiet")
                    return
            if nxt is not None:
                far = (nxt - self.clock.mono) > 1.0
                if not acts:
                    acts.append(("timer", nxt))
                    weights.append(1.0)
                else:
                    w = prof["timer_far"] if far else prof["timer_near"]
                    if self.draining:
                        w = 0.0
                    if w > 0:
                        acts.append(("timer", nxt))
                        weights.append(w)
        if not acts:
            raise SimDeadlock("no enabled action")
        if self.draining:
            i = 0
        else:
            i = self.ch.choose(len(acts), weights)
        what, arg = acts[i]
        self.action_counts[what if what != "actor" else arg.kind] += 1
        if what == "ready":
            h = loop._ready.popleft()
            if not h._cancelled:
                h._run()
            h = None
        elif what == "actor":
            self.note("fire", arg.label())
            arg.fire()
        else:
            if arg > self.clock.mono:
                self.clock.mono = arg
            self.note("tick")
            loop._move_due_timers()
        for hk in self.hooks_after_step:
            hk()


class SimLoop(asyncio.BaseEventLoop):
    """asyncio loop without selector, threads or real time"""

    def __init__(self, sim):
        super().__init__()
        self.sim = sim
        self._clock_resolution = 1e-9

    def time(self):
        return self.sim.clock.mono

    def _process_events(self, event_list):
        pass

    def _write_to_self(self):
        pass

    def call_soon_threadsafe(self, callback, *args, context=None):
        return self.call_soon(callback, *args, context=context)

    def run_in_executor(self, executor, func, *args):
        fut = self.create_future()
        sim = self.sim

        def complete():
            if fut.done():
                return
            try:
                res = func(*args)
            except BaseException as e:  # noqa
                if isinstance(e, (KeyboardInterrupt, SystemExit)):
                    raise
                fut.set_exception(e)
            else:
                fut.set_result(res)

        sim.job("exec", "exec:%s" % getattr(func, "__name__", "fn"), complete)
        return fut

    def _move_due_timers(self):
        sched = self._scheduled
        end = self.sim.clock.mono + self._clock_resolution
        while sched:
            h = sched[0]
            if h._cancelled:
                heapq.heappop(sched)
                h._scheduled = False
                if self._timer_cancelled_count > 0:
                    self._timer_cancelled_count -= 1
                continue
            if h._when > end:
                break
            heapq.heappop(sched)
            h._scheduled = False
            self._ready.append(h)

    def _next_timer(self):
        sched = self._scheduled
        while sched and sched[0]._cancelled:
            h = heapq.heappop(sched)
            h._scheduled = False
            if self._timer_cancelled_count > 0:
                self._timer_cancelled_count -= 1
        if sched:
            return sched[0]._when
        return None

    def _run_once(self):
        self.sim.step()

    # never used: no sockets, no subprocesses, no signals
    def _make_socket_transport(self, *a, **k):
        raise NotImplementedError

    def shutdown_default_executor(self, timeout=None):
        async def _noop():
            return None
        return _noop()


def run_sim(sim, main_coro_fn):
    """run `await main_coro_fn(sim)` to completion under the simulator"""
    loop = sim.loop
    asyncio.set_event_loop(loop)
    try:
        return loop.run_until_complete(main_coro_fn(sim))
    finally:
        try:
            # cancel whatever is left (Periodic sleepers etc.) without running timers
            tasks = [t for t in asyncio.all_tasks(loop) if not t.done()]
            for t in tasks:
                t.cancel()
            sim.draining = True
            sim.step_cap = sim.steps + 5000
            if tasks:
                try:
                    loop.run_until_complete(asyncio.gather(*tasks, return_exceptions=True))
                except Exception:
                    pass
        finally:
            asyncio.set_event_loop(None)
            loop.close()
