"""
Lists world (C16, schedule clause): the real ListBuilder.run_once refreshes the global allow / deny
sets on the loop thread while validations (dynamic_lists.is_pubkey_allowed) run on REAL threads.
Only here thread pre-emption is explored at the granularity at which CPython really switches
threads: sys.monitoring (PEP 669) delivers INSTRUCTION events for exactly two code objects and the
callback is the pre-emption point; the seeded scheduler decides after each bytecode who holds the
baton, so every execution is serialised and replayable.
"""
import sys
import threading

from .. import kernel, evgen, histgen
from .store import StoreWorld

TOOL = 4


class Validator:
    def __init__(self, idx, pubkey, fn, config):
        self.idx = idx
        self.pubkey = pubkey
        self.fn = fn
        self.config = config
        self.go = threading.Event()
        self.parked = threading.Event()
        self.started = False
        self.done = False
        self.outcome = None
        self.steps = 0
        self.thread = threading.Thread(target=self._run, name="validator-%d" % idx, daemon=True)
        self.started_at = None
        self.finished_at = None

    def _run(self):
        class Ev:
            pass
        ev = Ev()
        ev.pubkey = self.pubkey
        try:
            self.fn(ev, self.config)
            self.outcome = "pass"
        except Exception as e:
            self.outcome = "refuse:%s" % type(e).__name__
        self.done = True
        self.parked.set()


class Interleaver:
    def __init__(self, sim, main_code, val_code, validators, weights, factory=None):
        self.sim = sim
        self.factory = factory
        self.main_code = main_code
        self.val_code = val_code
        self.vals = validators
        self.by_thread = {}
        self.main_thread = threading.current_thread()
        self.weights = weights
        self.boundaries = 0
        self.switches = 0
        self.active = False
        self.trace = []

    def __enter__(self):
        m = sys.monitoring
        m.use_tool_id(TOOL, "nrsim-lists")
        m.register_callback(TOOL, m.events.INSTRUCTION, self._cb)
        m.set_local_events(TOOL, self.main_code, m.events.INSTRUCTION)
        m.set_local_events(TOOL, self.val_code, m.events.INSTRUCTION)
        self.active = True
        return self

    def __exit__(self, *a):
        self.active = False
        m = sys.monitoring
        m.set_local_events(TOOL, self.main_code, 0)
        m.set_local_events(TOOL, self.val_code, 0)
        m.register_callback(TOOL, m.events.INSTRUCTION, None)
        m.free_tool_id(TOOL)
        return False

    # -- callbacks ---------------------------------------------------------------------------
    def _cb(self, code, offset):
        if not self.active:
            return
        t = threading.current_thread()
        if code is self.main_code and t is self.main_thread:
            self.main_boundary(offset)
        elif code is self.val_code and t is not self.main_thread:
            v = self.by_thread.get(t)
            if v is not None:
                v.steps += 1
                v.parked.set()
                v.go.wait()
                v.go.clear()

    def _step(self, v):
        """let validator v run until its next bytecode boundary (or its end)"""
        self.switches += 1
        if not v.started:
            v.started = True
            v.started_at = self.boundaries
            self.by_thread[v.thread] = v
            v.thread.start()
        else:
            v.go.set()
        v.parked.wait()
        v.parked.clear()
        if v.done and v.finished_at is None:
            v.finished_at = self.boundaries

    def main_boundary(self, offset):
        self.boundaries += 1
        if self.weights.get("sweep") and self.factory is not None:
            # sweep style: one fresh validation at EVERY bytecode boundary of the refresh, each run to its end
            # (every single-validation placement of this refresh is covered; no draw is made)
            v = self.factory(len(self.vals))
            self.vals.append(v)
            while not v.done:
                self._step(v)
            return
        at = self.weights.get("at")
        if at is not None:
            # placement style: validation i starts at a given bytecode boundary of the refresh and runs to its
            # end undisturbed (uniform over the whole refresh, so late windows are reached as often as early ones)
            for v in self.vals:
                if not v.done and not v.started and at[v.idx % len(at)] <= self.boundaries:
                    self.trace.append((self.boundaries, offset, v.idx))
                    while not v.done:
                        self._step(v)
            return
        while True:
            live = [v for v in self.vals if not v.done]
            if not live:
                return
            opts = ["main"] + live
            w = [self.weights["main"]] + [self.weights["start"] if not v.started else self.weights["val"] for v in live]
            c = self.sim.choose(len(opts), w)
            if c == 0:
                return
            self.trace.append((self.boundaries, offset, opts[c].idx))
            self._step(opts[c])

    def finish(self):
        """after the refresh: every validation still in flight completes"""
        for v in self.vals:
            while not v.done:
                self._step(v)
            v.thread.join(5)


# ---------------------------------------------------------------------------------------------
# ThreadRace: several sync jobs on real threads, pre-empted at bytecode boundaries of a set of code
# objects; the seeded scheduler picks who advances.  (Used for validations racing with each other
# on executor threads.)
# ---------------------------------------------------------------------------------------------

def nested_codes(obj, seen=None):
    """code objects of a function / code object and everything nested in it (closures, genexprs)"""
    seen = seen if seen is not None else set()
    code = getattr(obj, "__code__", obj)
    if not hasattr(code, "co_consts") or code in seen:
        return seen
    seen.add(code)
    for c in code.co_consts:
        if hasattr(c, "co_consts"):
            nested_codes(c, seen)
    return seen


def _unwrapped(f):
    """the function and everything it wraps (contextmanager, lru_cache, functools.wraps ...)"""
    out = []
    while f is not None and f not in out:
        out.append(f)
        f = getattr(f, "__wrapped__", None)
    return out


def module_codes(mod, seen=None):
    seen = seen if seen is not None else set()
    fname = getattr(mod, "__file__", None)

    def take(f):
        for g in _unwrapped(getattr(f, "__func__", f)):
            code = getattr(g, "__code__", None)
            if code is not None and (fname is None or code.co_filename == fname):
                nested_codes(code, seen)
    for v in list(vars(mod).values()):
        if isinstance(v, type) and getattr(v, "__module__", None) == mod.__name__:
            for m in vars(v).values():
                take(m)
        elif callable(v):
            take(v)
    return seen


class RaceJob:
    def __init__(self, idx, fn):
        self.idx = idx
        self.fn = fn
        self.go = threading.Event()
        self.parked = threading.Event()
        self.started = False
        self.done = False
        self.result = None
        self.exc = None
        self.steps = 0
        self.thread = threading.Thread(target=self._run, name="race-%d" % idx, daemon=True)

    def _run(self):
        try:
            self.result = self.fn()
        except BaseException as e:  # noqa
            self.exc = e
        self.done = True
        self.parked.set()


class ThreadRace:
    def __init__(self, sim, codes, fns, weights=None):
        self.sim = sim
        self.codes = list(codes)
        self.jobs = [RaceJob(i, f) for i, f in enumerate(fns)]
        self.by_thread = {}
        self.weights = weights or {"stay": 10.0, "switch": 1.0, "start": 1.0}
        self.boundaries = 0
        self.switches = 0
        self.active = False

    def _cb(self, code, offset):
        if not self.active:
            return
        j = self.by_thread.get(threading.current_thread())
        if j is not None:
            j.steps += 1
            j.parked.set()
            j.go.wait()
            j.go.clear()

    def _step(self, j):
        if not j.started:
            j.started = True
            self.by_thread[j.thread] = j
            j.thread.start()
        else:
            j.go.set()
        if not j.parked.wait(30):
            raise RuntimeError("race job %d does not reach a boundary" % j.idx)
        j.parked.clear()

    def run(self):
        m = sys.monitoring
        m.use_tool_id(TOOL, "nrsim-race")
        m.register_callback(TOOL, m.events.INSTRUCTION, self._cb)
        for c in self.codes:
            m.set_local_events(TOOL, c, m.events.INSTRUCTION)
        self.active = True
        cur = None
        try:
            while True:
                live = [j for j in self.jobs if not j.done]
                if not live:
                    break
                w = []
                for j in live:
                    if j is cur:
                        w.append(self.weights["stay"])
                    elif not j.started:
                        w.append(self.weights["start"])
                    else:
                        w.append(self.weights["switch"])
                nxt = live[self.sim.choose(len(live), w)] if len(live) > 1 else live[0]
                if nxt is not cur:
                    self.switches += 1
                cur = nxt
                self.boundaries += 1
                self._step(cur)
        finally:
            self.active = False
            for c in self.codes:
                m.set_local_events(TOOL, c, 0)
            m.register_callback(TOOL, m.events.INSTRUCTION, None)
            m.free_tool_id(TOOL)
            for j in self.jobs:
                j.go.set()
        for j in self.jobs:
            j.thread.join(5)
        return self.jobs
