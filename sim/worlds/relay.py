"""
Relay world: real storage + M websocket client actors running the real web.start_client.
The three transport callables (ws_send, ws_recv, ws_close) are the seam; the scheduler decides
when each inbound frame is delivered, when slow sends complete and when a peer disconnects.
"""
import asyncio
import logging

from .env import RunEnv
from .. import kernel


class Client(kernel.Actor):
    """script items:
       ["send", text]      deliver a text frame (when the handler is waiting in ws_recv)
       ["disconnect"]      the peer goes away (ws_recv raises WebSocketDisconnected)
       ["wait", seconds]   stay idle for that long (virtual)
       ["barrier"]         continue only when nothing else in the system can run
    """

    kind = "client"
    weight_key = "client"

    def __init__(self, world, idx, script, addr=None, slow=False, origin="", close_fails=False, late=False,
                 send_stall=None):
        self.close_fails = close_fails
        self.late = late
        self.send_stall = send_stall
        self.world = world
        self.sim = world.sim
        self.idx = idx
        self.script = script
        self.addr = addr or "10.0.%d.%d" % (idx // 200, idx % 200 + 1)
        self.slow = slow
        self.origin = origin
        self.pos = 0
        self.recv_fut = None
        self.disconnected = False
        self.closed = None
        self.sleep_until = None
        self.transcript = []      # (seq, text)
        self.frames = []          # per delivered frame: {"i", "text", "t_deliver", "t_done"}
        self.task = None
        self.finished = False
        self.exc = None
        self.recv_calls = 0

    # -- transport callables handed to start_client ---------------------------------------
    async def ws_recv(self):
        import falcon
        self.recv_calls += 1
        if self.recv_calls == 1:
            self.first_recv_mono = self.sim.clock.mono
        now = self.sim.stamp()
        if self.frames and self.frames[-1]["t_done"] is None:
            self.frames[-1]["t_done"] = now
            self.frames[-1]["wall_done"] = self.sim.clock.wall()
            self.frames[-1]["reg_after"] = list(self.world.registry().get(self.idx, []))
        if self.disconnected or self.closed is not None:
            raise falcon.WebSocketDisconnected()
        # a frame that is already buffered in the socket is returned without yielding to the loop
        if (self.pos < len(self.script) and self.script[self.pos][0] in ("send", "dyn", "disconnect")
                and self.world.p_buffered > 0 and self.sim.flip(self.world.p_buffered)):
            self.sim.probes["buffered_frames"] += 1
            self.sim.note("fire", self.label() + ":buffered")
            self.recv_fut = self.sim.loop.create_future()
            try:
                self.fire()
                return self.recv_fut.result()
            finally:
                self.recv_fut = None
        self.recv_fut = self.sim.loop.create_future()
        try:
            return await self.recv_fut
        finally:
            self.recv_fut = None

    async def ws_send(self, text):
        import falcon
        if self.disconnected or self.closed is not None:
            raise falcon.WebSocketDisconnected()
        if not isinstance(text, str):
            raise TypeError("send_text needs str, got %s" % type(text).__name__)
        text.encode("utf-8")      # a real websocket cannot send lone surrogates: UnicodeEncodeError
        self.transcript.append((self.sim.stamp(), text))
        self.sim.note("tx", "c%d" % self.idx)
        self.n_sends = getattr(self, "n_sends", 0) + 1
        if self.send_stall and not self.sim.draining and self.n_sends in self.send_stall.get("sends", []):
            # fault: the reader stalls - this send takes a long (virtual) time although the peer is alive
            import asyncio
            self.sim.faults["stalled_reader_send"] += 1
            self.world.stalled_sends += 1
            try:
                await asyncio.sleep(float(self.send_stall.get("seconds", 10.0)))
            finally:
                self.world.stalled_sends -= 1
            if self.disconnected:
                raise falcon.WebSocketDisconnected()
        if self.slow and not self.sim.draining:
            self.sim.faults["slow_consumer_send"] += 1
            fut = self.sim.loop.create_future()
            self.sim.job("wsend", "wsend:c%d" % self.idx, lambda: (not fut.done()) and fut.set_result(None))
            await fut
            if self.disconnected:
                raise falcon.WebSocketDisconnected()

    async def ws_close(self, code=1000):
        self.closed = code
        self.closed_mono = self.sim.clock.mono
        self.transcript.append((self.sim.stamp(), "__CLOSE__%s" % code))
        if self.close_fails:
            # fault: the peer is already gone (half-open connection); the close frame cannot be sent
            import falcon
            self.sim.faults["ws_close_error"] += 1
            raise falcon.WebSocketDisconnected()

    # -- actor ------------------------------------------------------------------------------
    @property
    def is_barrier(self):
        return self.pos < len(self.script) and self.script[self.pos][0] == "barrier"

    def ready(self):
        if self.pos >= len(self.script) or self.disconnected or self.closed is not None:
            return False
        if self.recv_fut is None or self.recv_fut.done():
            return False
        if self.sleep_until is not None:
            if self.sim.clock.mono + 1e-9 < self.sleep_until:
                return False
        return True

    def label(self):
        it = self.script[self.pos]
        return "c%d:%s" % (self.idx, "send" if it[0] == "dyn" else it[0])

    def fire(self):
        import falcon
        it = self.script[self.pos]
        self.pos += 1
        self.sleep_until = None
        if it[0] == "dyn":
            # frame computed when it is sent (e.g. a NIP-42 answer to the challenge received)
            text = self.world.dyn[it[1]](self, it[2] if len(it) > 2 else None)
            it = ["send", text]
        if it[0] == "send":
            self.frames.append({"i": self.pos - 1, "text": it[1], "t_deliver": self.sim.stamp(),
                                "t_done": None, "wall_deliver": self.sim.clock.wall(), "wall_done": None,
                                "mono_deliver": self.sim.clock.mono,
                                "reg_before": list(self.world.registry().get(self.idx, [])), "reg_after": None})
            self.last_deliver_mono = self.sim.clock.mono
            self.recv_fut.set_result(it[1])
        elif it[0] == "disconnect":
            self.disconnect()
        elif it[0] == "wait":
            self.sleep_until = self.sim.clock.mono + float(it[1])
            self.sim.loop.call_at(self.sleep_until, lambda: None)
        elif it[0] == "barrier":
            pass
        elif it[0] == "clock":
            # fault: the relay's wall clock jumps (monotonic time is unaffected)
            self.sim.clock.skew += float(it[1])
            self.sim.faults["clock_jump"] += 1
            # (stamp, wall clock right after the jump): oracles that judge "what time was it for the relay
            # while it handled this frame" need every value the clock took in between
            self.world.clock_jumps.append((self.sim.stamp(), self.sim.clock.wall()))

    def disconnect(self):
        import falcon
        if self.disconnected:
            return
        self.disconnected = True
        self.t_disconnect = self.sim.stamp()
        if not self.sim.draining:
            self.sim.faults["peer_disconnect"] += 1
        if self.recv_fut is not None and not self.recv_fut.done():
            self.recv_fut.set_exception(falcon.WebSocketDisconnected())


class _StubReq:
    """what NostrAPI.on_websocket reads from the falcon request"""

    def __init__(self, client):
        self.remote_addr = client.addr
        self._origin = client.origin or None

    def get_header(self, name, default=None):
        if name.lower() == "origin":
            return self._origin
        return default


class _StubWS:
    """falcon.asgi.WebSocket stand-in backed by a Client actor"""

    def __init__(self, client):
        self.c = client
        self.accepted = False

    async def accept(self, *a, **k):
        import falcon
        if self.c.disconnected:
            raise falcon.WebSocketDisconnected()
        self.accepted = True
        self.c.accepted = True

    async def close(self, code=1000):
        await self.c.ws_close(code=code)

    async def send_text(self, text):
        await self.c.ws_send(text)

    async def receive_text(self):
        return await self.c.ws_recv()


class RelayWorld:
    def __init__(self, sim, backend, clients, cfg=None, storage_opts=None, message_timeout=1800,
                 rate_limits=None, gc_interval=None, quiet_horizon=0.0, preload=None, p_buffered=0.0):
        self.sim = sim
        self.backend = backend
        self.env = RunEnv(sim, backend, cfg=cfg, storage_opts=storage_opts)
        self.env.track_states = True
        self.clock_jumps = []
        self.stalled_sends = 0
        self.clients = [Client(self, i, c["script"], addr=c.get("addr"), slow=c.get("slow", False),
                               origin=c.get("origin", ""), close_fails=c.get("close_fails", False), late=c.get("late", False),
                               send_stall=c.get("send_stall"))
                        for i, c in enumerate(clients)]
        self.message_timeout = message_timeout
        self.rate_limits = rate_limits
        self.gc_interval = gc_interval
        self.quiet_horizon = quiet_horizon
        self.preload = preload or []
        self.p_buffered = p_buffered
        self.via_api = False
        self.log = logging.getLogger("nostr_relay.sim")
        self.registry_hook = None
        self.final = {}
        self.dyn = {"auth": self.build_auth}
        self.before_clients = None   # async callback(world) after storage is open
        self.at_quiescence = None    # async callback(world) at quiescence, before the drain

    def challenge_of(self, client):
        import json
        for seq, text in client.transcript:
            try:
                m = json.loads(text)
            except Exception:
                continue
            if isinstance(m, list) and len(m) == 2 and m[0] == "AUTH":
                return m[1]
        return None

    def build_auth(self, client, spec):
        """NIP-42 answer; spec: {key, kind, url, challenge: own|other:<idx>|literal:<s>|none, dt,
        sign_with, extra_tags, drop, dup}"""
        import json
        from .. import evgen
        spec = spec or {}
        key = evgen.KEYS[spec.get("key", 0)]
        ch = spec.get("challenge", "own")
        if ch == "own":
            chal = self.challenge_of(client)
        elif ch.startswith("other:"):
            chal = self.challenge_of(self.clients[int(ch[6:])])
        elif ch.startswith("literal:"):
            chal = ch[8:]
        else:
            chal = None
        tags = []
        if spec.get("url", "ws://relay.example") is not None:
            tags.append(["relay", spec.get("url", "ws://relay.example")])
        if chal is not None:
            tags.append(["challenge", chal])
        tags += spec.get("extra_tags", [])
        if spec.get("dup"):
            tags = tags + [list(t) for t in tags if t[0] == spec["dup"]]
        if spec.get("drop"):
            tags = [t for t in tags if t[0] != spec["drop"]]
        now = int(self.sim.clock.wall()) + int(spec.get("client_skew", 0))
        created = now + int(spec.get("dt", 0))
        if spec.get("created_raw") is not None:
            # a JSON text for created_at (NaN, Infinity, null, a float, a string...), NOW = the client's clock
            created = json.loads(spec["created_raw"].replace("NOW", str(now)))
        ev = evgen.make(key, kind=spec.get("kind", 22242), created_at=created, tags=tags,
                        content=spec.get("content", ""))
        sw = spec.get("sign_with")
        if sw is not None:
            ev["sig"] = evgen.KEYS[sw].sign(bytes.fromhex(ev["id"]))
        if spec.get("corrupt_sig"):
            ev["sig"] = ev["sig"][:-2] + ("00" if ev["sig"][-2:] != "00" else "01")
        if spec.get("claim_pubkey") is not None:
            ev["pubkey"] = evgen.KEYS[spec["claim_pubkey"]].pub
        client.auth_sent = getattr(client, "auth_sent", []) + [ev]
        return json.dumps(["AUTH", ev])

    def registry(self):
        """{client idx: [sub ids]} from storage.clients (public attribute), read passively"""
        out = {}
        st = self.env.storage
        if st is None:
            return out
        owner = getattr(self, "cid_owner", {})
        by_task, by_addr = {}, {}
        for c in self.clients:
            by_task.setdefault(id(c.task), []).append(c)
            by_addr.setdefault(c.addr, []).append(c)
        for cid, subs in list(st.clients.items()):
            s = str(cid)
            task = owner.get(s)
            addr = s.rsplit("-", 1)[0]
            for c in (by_task.get(id(task), []) if task is not None else by_addr.get(addr, [])):
                out.setdefault(c.idx, []).extend(list(subs.keys()))
        return out

    async def main(self, _sim):
        from nostr_relay import web
        from nostr_relay.rate_limiter import get_rate_limiter
        sim = self.sim
        env = self.env
        st = await env.open()
        for ev in self.preload:
            try:
                await st.add_event(dict(ev))
            except Exception:
                pass
        if self.gc_interval:
            env.Config.garbage_collector = {"collect_interval": self.gc_interval}
            st.start_garbage_collector()
        if self.before_clients:
            await self.before_clients(self)
            st = env.storage            # (the hook may have restarted the storage)
        await sim.quiescent()
        env.states.append((sim.stamp(), env.dump()))
        opts = {"rate_limits": self.rate_limits} if self.rate_limits else {}
        limiter = get_rate_limiter(opts)
        self.limiter = limiter
        api = web.NostrAPI(st, rate_limiter=limiter) if self.via_api else None
        # which connection owns which registry entry: ClientID objects are created inside start_client, on the
        # connection's own task (several connections may come from one address, so the address does not tell)
        real_cid = web.ClientID
        owner = self.cid_owner = {}

        class _OwnedClientID(real_cid):
            __slots__ = ()

            def __init__(cid_self, remote_addr):
                real_cid.__init__(cid_self, remote_addr)
                try:
                    owner[str(cid_self)] = asyncio.current_task()
                except RuntimeError:
                    pass
        web.ClientID = _OwnedClientID
        # every penalty sleep a connection handler takes: (stamp, task, seconds)
        import types as _types
        real_aio = web.asyncio
        sleeps = self.handler_sleeps = []

        class _AioNS(_types.SimpleNamespace):
            def __getattr__(ns_self, name):
                return getattr(real_aio, name)

        async def _sleep(delay, *a, **k):
            try:
                sleeps.append((sim.stamp(), asyncio.current_task(), delay))
            except RuntimeError:
                pass
            return await real_aio.sleep(delay, *a, **k)
        web.asyncio = _AioNS(sleep=_sleep)

        def _restore():
            web.ClientID = real_cid
            web.asyncio = real_aio
        self._restore_cid = _restore
        def connect(c):
            sim.add_actor(c)
            if api is not None:
                # the accept path: origin blacklist, ACCEPT rate limit, ws.accept(), then start_client
                c.task = asyncio.ensure_future(api.on_websocket(_StubReq(c), _StubWS(c)))
                return
            c.task = asyncio.ensure_future(web.start_client(
                st, c.ws_send, c.ws_recv, c.ws_close, self.log,
                message_timeout=self.message_timeout, rate_limiter=limiter,
                origin=c.origin, remote_addr=c.addr))

        class _LateConnect(kernel.Actor):
            """a connection that is only opened once everything else has gone quiet for the first time (the
            others may be asleep in a penalty): barrier semantics, so it precedes any advance of virtual time"""
            kind = "client"
            weight_key = "client"
            is_barrier = True

            def __init__(a_self, c):
                a_self.c = c
                a_self.done = False

            def ready(a_self):
                return not a_self.done

            def label(a_self):
                return "c%d:connect" % a_self.c.idx

            def fire(a_self):
                a_self.done = True
                sim.remove_actor(a_self)
                connect(a_self.c)

        never = asyncio.get_event_loop().create_future()
        for c in self.clients:
            if getattr(c, "late", False):
                c.task = never          # placeholder until it connects
                sim.add_actor(_LateConnect(c))
            else:
                connect(c)
        if self.registry_hook:
            sim.hooks_after_step.append(self.registry_hook)
        def in_command():
            # a handler is in the middle of a command (e.g. sleeping in a throttle), or a client
            # script still has frames to send (it is in a "wait")
            if self.stalled_sends:
                return True          # a send to a stalled reader is still under way
            for c in self.clients:
                if c.task.done():
                    continue
                if c.recv_fut is None:
                    return True
                if c.pos < len(c.script) and not c.disconnected and c.closed is None:
                    return True
            return False

        await sim.quiescent(self.quiet_horizon, unless=in_command)
        # ---- quiescence: faults have stopped, everything that could run has run ----------
        self.final["t_quiet"] = sim.stamp()
        self.final["dump"] = env.dump()
        self.final["full"] = env.dump(full=True)
        self.final["registry"] = self.registry()
        self.final["alive"] = {c.idx: (not c.disconnected and c.closed is None) for c in self.clients}
        self.final["script_left"] = {c.idx: len(c.script) - c.pos for c in self.clients}
        self.final["stuck_in_handler"] = [c.idx for c in self.clients
                                          if not c.task.done() and c.recv_fut is None]
        if self.at_quiescence:
            await self.at_quiescence(self)
        # ---- drain: every peer disconnects, handlers must finish ------------------------
        sim.draining = True
        for c in self.clients:
            c.disconnect()
        for c in self.clients:
            try:
                await asyncio.wait_for(asyncio.shield(c.task), 7200)
                c.finished = True
            except asyncio.TimeoutError:
                c.finished = False
            except asyncio.CancelledError:
                c.finished = True
                c.exc = "CancelledError"
            except BaseException as e:  # noqa
                c.finished = True
                c.exc = "%s: %s" % (type(e).__name__, str(e)[:200])
        if sim.hooks_after_step and self.registry_hook in sim.hooks_after_step:
            sim.hooks_after_step.remove(self.registry_hook)
        await sim.quiescent()
        self.final["registry_end"] = self.registry()
        self.final["dump_end"] = env.dump()
        me = asyncio.current_task()
        leftover = []
        for t in asyncio.all_tasks():
            if t is me or t.done():
                continue
            name = getattr(t.get_coro(), "__qualname__", "?")
            if name.split(".")[0] in ("Periodic", "StatsCollector", "BaseGarbageCollector"):
                continue
            if name in ("Periodic._run",) or name.startswith("AsyncAdapt_"):
                # (SQLAlchemy's own pool housekeeping after an injected engine error, e.g.
                #  AsyncAdapt_aiosqlite_connection._terminate_graceful_close, is not a task created
                #  on behalf of a websocket connection)
                continue
            leftover.append(name)
        self.final["leftover_tasks"] = leftover
        await env.close()

    def run(self):
        try:
            kernel.run_sim(self.sim, self.main)
        finally:
            if getattr(self, "_restore_cid", None):
                self._restore_cid()
            self.env.cleanup()
        return self
