"""
Per-run environment: Config, scratch directory, storage construction for both back ends,
independent dumps of the durable state, commit history.
"""
import os
import shutil
import sqlite3
import json

from .. import seams, kernel

_RUN_NO = [0]
SCRATCH_ROOT = "/dev/shm"


def reset_config(**attrs):
    from nostr_relay.config import Config
    Config.__dict__.clear()
    Config.__init__()
    Config.logging = {}
    Config.garbage_collector = {}
    for k, v in attrs.items():
        setattr(Config, k, v)
    return Config


def reset_globals():
    """process-global state of the relay that must not leak between runs"""
    from nostr_relay import util, storage as st
    util.Periodic._pending_tasks.clear()
    util.Periodic._running_tasks.clear()
    st._STORAGE = None
    try:
        from nostr_relay import dynamic_lists
        dynamic_lists.ALLOWED_PUBKEYS.clear()
        dynamic_lists.DENIED_PUBKEYS.clear()
    except Exception:
        pass
    try:
        from nostr_relay import web
        web.is_main_process.clear()
    except Exception:
        pass
    import lmdb
    lmdb.reset_all()
    lmdb.FAULT_HOOK = None
    lmdb.COMMIT_HOOK = None


class RunEnv:
    def __init__(self, sim, backend, cfg=None, storage_opts=None):
        self.sim = sim
        self.backend = backend
        self.cfg = dict(cfg or {})
        self.storage_opts = dict(storage_opts or {})
        _RUN_NO[0] += 1
        self.dir = os.path.join(SCRATCH_ROOT, "nrsim-%d-%d" % (os.getpid(), _RUN_NO[0]))
        os.makedirs(self.dir, exist_ok=True)
        self.dbpath = os.path.join(self.dir, "relay.sqlite3")
        self.lmdb_path = os.path.join(self.dir, "lmdb")
        self.storage = None
        self.states = []      # (seq, dump) at every commit of the durable store
        self.track_states = False
        self.full_states = False
        sim.sql = seams.SqlSeam(sim)
        sim.kv_writers = []
        seams.activate(sim)
        reset_globals()
        self.Config = reset_config(**self.cfg)

    # -- storage ---------------------------------------------------------------------------
    def storage_options(self):
        o = dict(self.storage_opts)
        if self.backend == "sql":
            o.setdefault("sqlalchemy.url", "sqlite+aiosqlite:///" + self.dbpath)
            o.setdefault("sqlalchemy.connect_args", {"timeout": 0})
        else:
            o.setdefault("class", "nostr_relay.storage.kv.LMDBStorage")
            o.setdefault("path", self.lmdb_path)
        return o

    async def open(self, create=True):
        opts = self.storage_options()
        self.Config.storage = dict(opts)
        if self.backend == "sql":
            from nostr_relay.storage.db import DBStorage
            from nostr_relay.storage import get_metadata
            cls = self.storage_class or DBStorage
            st = cls(dict(opts))
            await st.setup()
            if create:
                async with st.db.begin() as conn:
                    await conn.run_sync(get_metadata().create_all)
            self.sim.sql.after_commit = self._on_commit
        else:
            kv = seams.install_kv(self.sim)
            import lmdb
            cls = self.storage_class or kv.LMDBStorage
            lmdb.COMMIT_HOOK = self._on_commit
            st = cls(dict(opts))
            await st.setup()
        self.storage = st
        import nostr_relay.storage as stmod
        stmod._STORAGE = st
        return st

    storage_class = None

    async def close(self):
        st = self.storage
        if st is None:
            return
        self.storage = None
        try:
            await st.close()
        finally:
            if self.backend == "sql":
                import sqlalchemy as sa
                from sqlalchemy.engine.base import Engine
                try:
                    sa.event.remove(Engine, "connect", st._set_sqlite_pragma)
                except Exception:
                    pass

    def cleanup(self):
        seams.deactivate()
        shutil.rmtree(self.dir, ignore_errors=True)

    # -- dumps -----------------------------------------------------------------------------
    def _on_commit(self, *a):
        if self.track_states:
            self.states.append((self.sim.stamp(), self.dump(full=self.full_states)))

    def dump(self, full=False, path=None):
        if self.backend == "sql":
            return dump_sqlite(path or self.dbpath, full=full)
        import lmdb
        st = lmdb._ENVS.get(self.lmdb_path)
        if st is None:
            return ({}, set()) if full else {}
        return dump_lmdb(st.keys, st.data, full=full)

    def states_between(self, t0, t1):
        """durable states that existed at some instant of [t0, t1] (stamps)"""
        out = []
        last_before = None
        for seq, d in self.states:
            if seq <= t0:
                last_before = d
            elif seq <= t1:
                out.append(d)
        if last_before is not None:
            out.insert(0, last_before)
        return out


def dump_sqlite(path, full=False):
    """independent read of the durable SQL state: {id: event} (+ tag rows when full)"""
    if not os.path.exists(path):
        return ({}, set()) if full else {}
    con = sqlite3.connect(path, timeout=0)
    try:
        events = {}
        try:
            rows = con.execute(
                "SELECT id, created_at, kind, pubkey, tags, sig, content FROM events"
            ).fetchall()
        except sqlite3.OperationalError as e:
            if "no such table" in str(e):
                return ({}, set()) if full else {}
            raise
        for r in rows:
            tags = r[4]
            if isinstance(tags, (str, bytes)):
                try:
                    tags = json.loads(tags)
                except Exception:
                    tags = {"__undecodable__": repr(r[4])[:80]}
            eid = r[0].hex() if isinstance(r[0], bytes) else str(r[0])
            events[eid] = {
                "id": eid,
                "created_at": r[1],
                "kind": r[2],
                "pubkey": r[3].hex() if isinstance(r[3], bytes) else str(r[3]),
                "tags": tags,
                "sig": r[5].hex() if isinstance(r[5], bytes) else str(r[5]),
                "content": r[6],
            }
        if not full:
            return events
        trows = set()
        for i, n, v in con.execute("SELECT id, name, value FROM tags"):
            trows.add((i.hex() if isinstance(i, bytes) else str(i), n, v))
        return events, trows
    finally:
        con.close()


def dump_lmdb(keys, data, full=False):
    """independent walk of a committed snapshot of the fake LMDB"""
    from pip._vendor import msgpack
    events = {}
    others = set()
    for k in keys:
        if k[:1] == b"\x00" and len(k) == 33:
            try:
                row = msgpack.unpackb(data[k], use_list=True)
                ev = {
                    "id": row[1].hex(),
                    "created_at": row[2],
                    "kind": row[3],
                    "pubkey": row[4].hex(),
                    "content": row[5],
                    "tags": row[6],
                    "sig": row[7].hex(),
                }
                if k[1:].hex() != ev["id"]:
                    ev["__keymismatch__"] = k.hex()
            except Exception as e:
                ev = {"id": k[1:].hex(), "__undecodable__": repr(e)[:80]}
            events[k[1:].hex()] = ev
        elif full:
            others.add(k)
    if full:
        return events, others
    return events
