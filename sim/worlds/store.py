"""
Store world: one storage object driven through its public API by a generated history.
Writer steps, pool jobs, sqlite jobs and executor jobs are scheduler-owned actors.
"""
import asyncio
import copy

from .env import RunEnv
from .. import kernel


def ev_to_dict(e):
    """event object served by the storage API -> plain dict (the object as served)"""
    return {
        "id": e.id,
        "pubkey": e.pubkey,
        "created_at": e.created_at,
        "kind": e.kind,
        "tags": _plain(e.tags),
        "content": e.content,
        "sig": e.sig,
    }


def _plain(x):
    if isinstance(x, (list, tuple)):
        return [_plain(i) for i in x]
    if isinstance(x, (bytes, bytearray, memoryview)):
        return {"__bytes__": bytes(x).hex()}
    return x


class StoreWorld:
    """ops (JSON lists):
      ["add", event]                     storage.add_event
      ["cadd", [events]]                 several storage.add_event calls started together (overlapping)
      ["csub", filters, [events]]        a subscription's stored query overlapping with add_event calls
      ["csubs", [filters, ...]]          several subscriptions (different connections) whose stored queries overlap
      ["query", filters]                 storage.run_single_query (no max_limit)
      ["sub", filters]                   storage.subscribe + collect until EOSE (applies max_limit)
      ["get", id]                        storage.get_event
      ["del", id]                        storage.delete_event
      ["gc"]                             one garbage-collector pass at the current virtual time
      ["settle"]                         wait until writer/pool/sql are idle
      ["advance", seconds]               move the virtual clock
      ["restart"]                        close + reopen the storage on the same durable state
      ["restart_now"]                    the same without waiting for queued work first (orderly shutdown under load)
      ["setroles", pubkey, roles] / ["getroles", pubkey]
    """

    def __init__(self, sim, backend, cfg=None, storage_opts=None, settle_each=True,
                 track_states=False, full_states=False, full_gc=False):
        self.sim = sim
        self.env = RunEnv(sim, backend, cfg=cfg, storage_opts=storage_opts)
        self.env.track_states = track_states
        self.env.full_states = full_states
        self.backend = backend
        self.settle_each = settle_each
        self.full_gc = full_gc
        self.obs = []
        self.gc = None
        self.on_op = None

    async def settle(self):
        await self.sim.quiescent()

    def _full_post(self, o):
        """secondary structures after the operation (tag rows / raw key space), for the index-entry clauses"""
        o["post_full"] = self.env.dump(full=True)
        if self.backend == "lmdb":
            import lmdb
            st = lmdb._ENVS.get(self.env.lmdb_path)
            if st is not None:
                o["post_raw"] = (list(st.keys), dict(st.data))

    async def run(self, ops):
        env = self.env
        await env.open()
        await self.settle()
        try:
            for i, op in enumerate(ops):
                o = await self.do(i, op)
                self.obs.append(o)
                if self.on_op:
                    self.on_op(o)
            await self.settle()
        finally:
            await env.close()
        return self.obs

    async def do(self, i, op):
        sim = self.sim
        env = self.env
        st = env.storage
        kind = op[0]
        o = {"i": i, "op": op, "t0": sim.stamp()}
        label = "%s#%d" % (kind, i)
        sim.note("op", label)
        if sim.sql:
            sim.sql.begin_op(label)
        try:
            if kind == "add":
                o["pre"] = env.dump()
                if self.full_gc:
                    o["pre_full"] = env.dump(full=True)
                try:
                    ev, changed = await st.add_event(copy.deepcopy(op[1]))
                    o["res"] = ["ok", bool(changed), ev.id]
                except Exception as e:
                    o["res"] = ["err", type(e).__name__, str(e)[:200]]
                o["t_ret"] = sim.stamp()
                if self.settle_each:
                    await self.settle()
                    o["post"] = env.dump()
                    if self.full_gc:
                        self._full_post(o)
            elif kind == "cadd":
                # several events submitted at once: their add_event calls overlap (the scheduler interleaves
                # their statements / writer tasks)
                import asyncio as _aio
                o["pre"] = env.dump()
                if self.full_gc:
                    o["pre_full"] = env.dump(full=True)

                async def one(e):
                    try:
                        ev, changed = await st.add_event(copy.deepcopy(e))
                        return ["ok", bool(changed), ev.id]
                    except Exception as ex:
                        return ["err", type(ex).__name__, str(ex)[:200]]
                o["res"] = ["ok", list(await _aio.gather(*[one(e) for e in op[1]]))]
                o["t_ret"] = sim.stamp()
                if self.settle_each:
                    await self.settle()
                    o["post"] = env.dump()
                    if self.full_gc:
                        self._full_post(o)
            elif kind == "csubs":
                # several REQs of different connections whose stored queries overlap: ["csubs", [filters, filters, ...]]
                import asyncio as _aio
                res = await _aio.gather(*[self.subscribe_collect(fs, "q%d" % i, addr="10.0.1.%d" % (i + 1))
                                          for i, fs in enumerate(op[1])])
                o["res"] = ["ok", list(res)]
            elif kind == "csub":
                # a REQ whose stored query runs while other events are being written: ["csub", filters, [events]]
                import asyncio as _aio
                o["pre"] = env.dump()
                n0 = len(env.states)

                async def write(e):
                    try:
                        ev, changed = await st.add_event(copy.deepcopy(e))
                        return ["ok", bool(changed), ev.id]
                    except Exception as ex:
                        return ["err", type(ex).__name__, str(ex)[:200]]
                res = await _aio.gather(self.subscribe_collect(op[1], "cs"), *[write(e) for e in op[2]])
                o["res"] = res[0]
                o["writes"] = list(res[1:])
                await self.settle()
                o["post"] = env.dump()
                o["during"] = [d for _seq, d in env.states[n0:]]
            elif kind == "query":
                out = []
                try:
                    async for e in st.run_single_query(copy.deepcopy(op[1])):
                        out.append(ev_to_dict(e))
                    o["res"] = ["ok", out]
                except Exception as e:
                    o["res"] = ["err", type(e).__name__, str(e)[:200], out]
            elif kind == "sub":
                o["res"] = await self.subscribe_collect(op[1], op[2] if len(op) > 2 else "s")
            elif kind == "get":
                try:
                    e = await st.get_event(op[1])
                    o["res"] = ["ok", ev_to_dict(e) if e else None]
                except Exception as e:
                    o["res"] = ["err", type(e).__name__, str(e)[:200]]
            elif kind == "http":
                o["res"] = await self.http_get(op[1])
            elif kind == "del":
                o["pre"] = env.dump()
                try:
                    await st.delete_event(op[1])
                    o["res"] = ["ok"]
                except Exception as e:
                    o["res"] = ["err", type(e).__name__, str(e)[:200]]
                if self.settle_each:
                    await self.settle()
                    o["post"] = env.dump()
            elif kind == "gc":
                o["pre"] = env.dump()
                if self.full_gc:
                    o["pre_full"] = env.dump(full=True)
                o["T"] = sim.clock.wall()
                gc = self.make_gc()
                try:
                    await gc.run_once()
                    o["res"] = ["ok"]
                except Exception as e:
                    o["res"] = ["err", type(e).__name__, str(e)[:200]]
                if self.settle_each:
                    await self.settle()
                    o["post"] = env.dump()
                    if self.full_gc:
                        self._full_post(o)
            elif kind == "settle":
                await self.settle()
                o["res"] = ["ok"]
            elif kind == "advance":
                sim.clock.mono += float(op[1])
                o["res"] = ["ok"]
            elif kind == "restart_now":
                # an orderly shutdown while work may still be queued (no settling first): close() itself has to
                # see the acknowledged writes through; then reopen on the same durable state
                await env.close()
                await env.open(create=False)
                await self.settle()
                o["res"] = ["ok"]
                o["post"] = env.dump()
            elif kind == "restart":
                await self.settle()
                o["pre"] = env.dump()
                o["pre_full"] = env.dump(full=True)
                await env.close()
                await env.open(create=False)
                await self.settle()
                o["res"] = ["ok"]
                o["post"] = env.dump()
                o["post_full"] = env.dump(full=True)
            elif kind == "setroles":
                try:
                    await st.set_auth_roles(op[1], op[2])
                    o["res"] = ["ok"]
                except Exception as e:
                    o["res"] = ["err", type(e).__name__, str(e)[:200]]
                if self.settle_each:
                    await self.settle()
            elif kind == "getroles":
                try:
                    r = await st.get_auth_roles(op[1])
                    o["res"] = ["ok", sorted(r)]
                except Exception as e:
                    o["res"] = ["err", type(e).__name__, str(e)[:200]]
            else:
                raise ValueError("unknown op %r" % (kind,))
        finally:
            if sim.sql:
                sim.sql.end_op()
        o["t1"] = sim.stamp()
        return o

    async def http_get(self, event_id):
        """GET /e/<id> through the real resource class (stub request/response objects)"""
        import falcon
        from nostr_relay.web import ViewEventResource

        class Resp:
            media = None

        resp = Resp()
        try:
            await ViewEventResource(self.env.storage).on_get(None, resp, event_id)
        except falcon.HTTPNotFound:
            return ["404"]
        except Exception as e:
            return ["err", type(e).__name__, str(e)[:200]]
        return ["ok", _plain(resp.media)]

    def make_gc(self):
        if self.gc is None or self.gc.storage is not self.env.storage:
            if self.backend == "sql":
                from nostr_relay.storage.db import QueryGarbageCollector
                self.gc = QueryGarbageCollector(self.env.storage)
            else:
                from nostr_relay.storage.kv import KVGarbageCollector
                self.gc = KVGarbageCollector(self.env.storage)
        return self.gc

    async def subscribe_collect(self, filters, sub_id="s", addr="10.0.0.9"):
        """the path a REQ takes: storage.subscribe with a queue; collect until EOSE"""
        from nostr_relay.util import ClientID
        st = self.env.storage
        q = asyncio.Queue()
        cid = ClientID(addr)
        out = []
        try:
            await st.subscribe(cid, sub_id, copy.deepcopy(filters), q)
        except Exception as e:
            return ["err", type(e).__name__, str(e)[:200], out]
        while True:
            sid, e = await q.get()
            if e is None:
                break
            out.append(ev_to_dict(e))
        await st.unsubscribe(cid, sub_id)
        await st.unsubscribe(cid)
        return ["ok", out]


def run_store(sim, backend, ops, **kw):
    """run a history; returns (world, obs)"""
    w = StoreWorld(sim, backend, **kw)

    async def main(_sim):
        return await w.run(ops)

    try:
        obs = kernel.run_sim(sim, main)
    finally:
        w.env.cleanup()
    return w, obs
