"""
Notifier world (C20): K worker storages sharing one database, each with the real NotifyClient,
one real NotifyServer, all on simulated TCP.  The simulator owns the byte streams: it decides how
every write is split or coalesced on delivery, when it arrives, and when a peer disconnects.
TCP semantics are kept (ordered, no loss or duplication inside a connection).
"""
import asyncio
import types

from .. import kernel
from .env import RunEnv


class Pipe(kernel.Actor):
    """one direction of a simulated TCP connection"""

    kind = "tcp"
    weight_key = "tcp"

    def __init__(self, net, name, reader):
        self.net = net
        self.sim = net.sim
        self.name = name
        self.reader = reader
        self.buf = bytearray()
        self.eof_pending = False
        self.eof_done = False
        self.delivered = 0
        self.chunks = []

    def ready(self):
        return bool(self.buf) or (self.eof_pending and not self.eof_done)

    def label(self):
        return "tcp:%s" % self.name

    def fire(self):
        if self.buf:
            n = len(self.buf)
            style = self.net.style
            if self.sim.draining or style == "whole":
                k = n
            elif style == "bytes":
                k = 1
            elif style == "aligned":
                k = min(n, 32)
            elif style == "ids" and n >= 32:
                k = 32 * (self.sim.choose(n // 32) + 1)        # a whole number of ids, as many as the choice says
            else:
                k = self.sim.choose(n) + 1
            data = bytes(self.buf[:k])
            del self.buf[:k]
            self.delivered += k
            self.chunks.append(k)
            if k % 32 != 0:
                self.sim.probes["unaligned_chunks"] += 1
            self.reader.feed_data(data)
        elif self.eof_pending and not self.eof_done:
            self.eof_done = True
            self.reader.feed_eof()
            self.sim.remove_actor(self)


class Writer:
    def __init__(self, net, pipe, peername, sockname):
        self.net = net
        self.pipe = pipe
        self.peername = peername
        self.sockname = sockname
        self.closed = False
        self.other = None       # the opposite direction's pipe (closing tears both down)

    def write(self, data):
        if self.closed or self.pipe.eof_pending:
            return              # like a real transport after close(): silently dropped
        self.pipe.buf += bytes(data)
        self.net.sim.note("tcp.write", "%s %d" % (self.pipe.name, len(data)))

    async def drain(self):
        if self.closed:
            raise ConnectionResetError("Connection lost")
        await asyncio.sleep(0)

    def close(self):
        if not self.closed:
            self.closed = True
            self.pipe.eof_pending = True

    def is_closing(self):
        return self.closed

    async def wait_closed(self):
        return None

    def get_extra_info(self, name, default=None):
        if name == "peername":
            return self.peername
        if name == "sockname":
            return self.sockname
        return default


class Server:
    def __init__(self, net, cb, port):
        self.net = net
        self.cb = cb
        self.port = port
        self._forever = None

    async def __aenter__(self):
        return self

    async def __aexit__(self, *a):
        self.close()

    def close(self):
        self.net.listeners.pop(self.port, None)

    async def serve_forever(self):
        self._forever = asyncio.get_running_loop().create_future()
        await self._forever

    async def wait_closed(self):
        return None


class SimNet:
    def __init__(self, sim, style="random"):
        self.sim = sim
        self.style = style
        self.listeners = {}
        self.conns = []
        self.next_port = 40000

    async def start_server(self, cb, host=None, port=None, **kw):
        if port in self.listeners:
            raise OSError(98, "Address already in use")
        srv = Server(self, cb, port)
        self.listeners[port] = srv
        return srv

    async def open_connection(self, host=None, port=None, **kw):
        srv = self.listeners.get(port)
        if srv is None:
            raise ConnectionRefusedError(111, "Connect call failed")
        self.next_port += 1
        cport = self.next_port
        loop = asyncio.get_running_loop()
        r_client = asyncio.StreamReader(loop=loop)
        r_server = asyncio.StreamReader(loop=loop)
        c2s = Pipe(self, "c%d>s" % cport, r_server)
        s2c = Pipe(self, "s>c%d" % cport, r_client)
        self.sim.add_actor(c2s)
        self.sim.add_actor(s2c)
        w_client = Writer(self, c2s, (host, port), ("127.0.0.1", cport))
        w_server = Writer(self, s2c, ("127.0.0.1", cport), (host, port))
        conn = {"port": cport, "c2s": c2s, "s2c": s2c, "w_client": w_client, "w_server": w_server,
                "task": None}
        self.conns.append(conn)
        conn["task"] = asyncio.ensure_future(srv.cb(r_server, w_server))
        return r_client, w_client

    def kill(self, conn):
        """the worker's process dies / its connection is reset: both directions end"""
        # as asyncio's connection_lost does: the transport is closed and the reader sees EOF at the
        # same instant (the handler wakes up through the ready queue, like in a real loop); bytes
        # still in flight are dropped (RST)
        for w, pipe in ((conn["w_client"], conn["s2c"]), (conn["w_server"], conn["c2s"])):
            w.closed = True
        for pipe in (conn["c2s"], conn["s2c"]):
            del pipe.buf[:]
            pipe.eof_pending = True
            if not pipe.eof_done:
                pipe.eof_done = True
                pipe.reader.feed_eof()
                self.sim.remove_actor(pipe)
        self.sim.faults["tcp_disconnect"] += 1

    def namespace(self):
        """stand-in for the `asyncio` name inside nostr_relay.notifier"""
        ns = types.SimpleNamespace()
        for name in ("sleep", "create_task", "exceptions", "CancelledError", "ensure_future", "wait_for",
                     "IncompleteReadError", "TimeoutError", "get_running_loop", "Event", "Lock"):
            setattr(ns, name, getattr(asyncio, name))
        ns.start_server = self.start_server
        ns.open_connection = self.open_connection
        return ns


class StorageSpy:
    """what the NotifyClient sees as its storage: the real storage, with its two entry points logged"""

    def __init__(self, world, idx, storage):
        self._world = world
        self._idx = idx
        self._storage = storage
        self.lookups = []      # (stamp, hexid, found)
        self.pushed = []       # (stamp, event id)

    async def get_event(self, hexid):
        ev = None
        try:
            ev = await self._storage.get_event(hexid)
        finally:
            self.lookups.append((self._world.sim.stamp(), hexid, ev is not None))
        return ev

    async def notify_all_connected(self, event):
        self.pushed.append((self._world.sim.stamp(), event.id))
        return await self._storage.notify_all_connected(event)

    def __getattr__(self, name):
        return getattr(self._storage, name)
