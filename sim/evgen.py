"""
Event factory for workloads: keys and BIP-340 signing with coincurve directly.
Independent of nostr_relay / aionostr.
"""
import hashlib

from coincurve import PrivateKey

from . import model

_SEEDS = [
    "f6d7c79924aa815d0d408bc28c1a23af208209476c1b7691df96f7d7b72a2753",
    "8f50290eaa19f3cefc831270f3c2b5ddd3f26d11b0b72bc957067d6811bc618d",
    "9627da965699a2a3048f97b77df5047e8cd0d11daca75e7687d0b28b65416a3c",  # service key of the runs
    "0000000000000000000000000000000000000000000000000000000000000101",
    "00000000000000000000000000000000000000000000000000000000000002a7",
]
SERVICE_SK = _SEEDS[2]


class Key:
    def __init__(self, sk_hex):
        self.sk = sk_hex
        self._pk = PrivateKey(bytes.fromhex(sk_hex))
        self.pub = self._pk.public_key.format()[1:].hex()

    def sign(self, msg32):
        return self._pk.sign_schnorr(msg32, None).hex()


KEYS = [Key(s) for s in _SEEDS]
SERVICE = KEYS[2]
AUTHORS = [KEYS[0], KEYS[1], KEYS[3], KEYS[4]]
BY_PUB = {k.pub: k for k in KEYS}


def make(key, kind=1, created_at=0, tags=None, content=""):
    if isinstance(key, int):
        key = AUTHORS[key % len(AUTHORS)]
    ev = {
        "pubkey": key.pub,
        "created_at": created_at,
        "kind": kind,
        "tags": [list(t) for t in (tags or [])],
        "content": content,
    }
    ev["id"] = model.canon_id(ev)
    ev["sig"] = key.sign(bytes.fromhex(ev["id"]))
    return ev


def delegation_tag(delegator, delegatee_pub, conditions="kind=1"):
    msg = hashlib.sha256(
        ("nostr:delegation:%s:%s" % (delegatee_pub, conditions)).encode()
    ).digest()
    return ["delegation", delegator.pub, conditions, delegator.sign(msg)]


def resign(ev, key=None):
    key = key or BY_PUB[ev["pubkey"]]
    ev = dict(ev)
    ev["id"] = model.canon_id(ev)
    ev["sig"] = key.sign(bytes.fromhex(ev["id"]))
    return ev
