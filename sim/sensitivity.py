"""sensitivity proof: each mutant patch under selftest/mutants/ (and seeded/<id>/patch.diff) must be
killed by the quick check of the property it breaks, and replay of the reported file must fail again"""
import glob
import json
import os
import re
import shutil
import subprocess
import sys

from . import runner

SCRATCH = "/dev/shm/nrsim-mutant-%d" % os.getpid()


def prepare(patch):
    shutil.rmtree(SCRATCH, ignore_errors=True)
    subprocess.run(["rsync", "-a", "--exclude", ".git", "--exclude", "htmlcov", "--exclude",
                    "*.egg-info", "--exclude", "__pycache__", "/repo/", SCRATCH + "/"], check=True)
    r = subprocess.run(["patch", "-p1", "-s", "-d", SCRATCH, "-i", os.path.abspath(patch)],
                       capture_output=True, text=True)
    if r.returncode != 0:
        raise RuntimeError("patch %s does not apply: %s%s" % (patch, r.stdout, r.stderr))


def run_one(pid, patch, tier="quick", runs=None, jobs=16):
    prepare(patch)
    out = os.path.join(SCRATCH, "_out")
    env = dict(os.environ, VERIF_REPO=SCRATCH, VERIF_OUT=out)
    cmd = [os.path.join(runner.VERIF, "vcheck"), pid, "--tier", tier, "--jobs", str(jobs)]
    if runs:
        cmd += ["--runs", str(runs)]
    r = subprocess.run(cmd, env=env, capture_output=True, text=True)
    m = re.search(r"^VIOLATION property=(\S+) replay=(\S+)", r.stdout, re.M)
    killed = r.returncode == 1 and m is not None
    detail = ""
    replay_ok = None
    if killed:
        lines = [l for l in r.stdout.splitlines() if l.startswith("  class=")]
        detail = lines[0].strip() if lines else ""
        r2 = subprocess.run([os.path.join(runner.VERIF, "vcheck"), pid, "--replay", m.group(2)],
                            env=env, capture_output=True, text=True)
        replay_ok = r2.returncode == 1
    elif r.returncode == 2:
        detail = "HARNESS ERROR: " + r.stderr[-400:]
    shutil.rmtree(SCRATCH, ignore_errors=True)
    return killed, replay_ok, detail, r.returncode


def main(a):
    pats = sorted(glob.glob(os.path.join(runner.VERIF, "selftest", "mutants", "*.patch")))
    pats += sorted(glob.glob(os.path.join(runner.VERIF, "seeded", "*", "patch.diff")))
    want = a.prop.upper() if a.prop else None
    rows = []
    bad = 0
    baseline = {}
    for p in pats:
        if "seeded" in p.split(os.sep):
            meta = json.load(open(os.path.join(os.path.dirname(p), "meta.json")))
            pid = meta["property"]
            name = "seeded/" + os.path.basename(os.path.dirname(p))
        else:
            name = os.path.basename(p)
            pid = name.split("-")[0].upper()
        if want and pid != want:
            continue
        if pid not in baseline:
            # a kill only counts when the same command is clean on the unchanged tree
            out = os.path.join("/dev/shm", "nrsim-base-%d" % os.getpid())
            cmd = [os.path.join(runner.VERIF, "vcheck"), pid, "--tier", "quick", "--jobs", str(a.jobs)]
            if a.runs:
                cmd += ["--runs", str(a.runs)]
            r0 = subprocess.run(cmd, env=dict(os.environ, VERIF_OUT=out), capture_output=True, text=True)
            shutil.rmtree(out, ignore_errors=True)
            baseline[pid] = r0.returncode
            if r0.returncode != 0:
                print("%-44s %s BASELINE NOT CLEAN (rc=%d): kills would be meaningless" % ("(unchanged tree)", pid, r0.returncode))
                bad += 1
        if baseline[pid] != 0:
            continue
        killed, replay_ok, detail, rc = run_one(pid, p, jobs=a.jobs, runs=a.runs)
        rows.append((name, pid, killed, replay_ok, detail))
        print("%-44s %s %s replay=%s %s" % (name, pid, "KILLED" if killed else "MISSED(rc=%d)" % rc,
                                           replay_ok, detail[:110]))
        sys.stdout.flush()
        if not killed or not replay_ok:
            bad += 1
    print("%d mutants, %d not killed" % (len(rows), bad))
    return 1 if bad else 0
