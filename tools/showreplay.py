#!/usr/bin/env python3
"""pretty-print a relay-world replay file"""
import json, sys
d = json.load(open(sys.argv[1]))
c = d["case"]
print(sys.argv[1], c.get("backend"), "choices", d["choices"])
print(" expect", d["expect"]["cls"], d["expect"]["sig"])
for i, cl in enumerate(c.get("clients", [])):
    print(" client", i, "slow" if cl.get("slow") else "")
    for it in cl["script"]:
        if it[0] == "send":
            try:
                m = json.loads(it[1])
            except Exception:
                print("    raw", it[1][:100]); continue
            if isinstance(m, list) and m and m[0] == "EVENT" and isinstance(m[1], dict):
                e = m[1]
                print("    EVENT", (e.get("kind"), e.get("created_at"), str(e.get("id"))[:8], str(e.get("pubkey"))[:6], e.get("tags")))
            else:
                print("   ", json.dumps(m)[:300])
        else:
            print("   ", it)
