#!/usr/bin/env python3
"""run a relay-world replay in-process and dump transcripts (debug aid)"""
import json, sys, os
sys.path.insert(0, os.path.dirname(os.path.dirname(os.path.abspath(__file__))))
from sim import kernel, seams
d = json.load(open(sys.argv[1]))
seams.install_process(d.get("knobs", {}))
from sim.worlds import relay
case = d["case"]
sim = kernel.Sim(kernel.Chooser(replay=d["choices"]), seed_str="replay", profile=case.get("sched"), keep_log=True)
w = relay.RelayWorld(sim, case["backend"], case["clients"], preload=case.get("preload"),
                     cfg=case.get("cfg"), rate_limits=case.get("rate_limits"), message_timeout=case.get("message_timeout", 1800), p_buffered=case.get("p_buffered", 0.0), storage_opts=case.get("storage_opts"))
w.run()
for c in w.clients:
    print("== client", c.idx, "alive", w.final["alive"].get(c.idx), "finished", c.finished, c.exc)
    for f in c.frames:
        print("   frame", f["i"], f["t_deliver"], f["t_done"], f["text"][:90])
    for s, t in c.transcript:
        print("   tx", s, t[:150])
print("registry", w.final["registry"])
