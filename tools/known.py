#!/usr/bin/env python3
"""tools/known.py add <KF-id> <property> <replay-file> <sig-regex> <what>   (copies the exemplar into known/)"""
import json, os, shutil, sys
V = os.path.dirname(os.path.dirname(os.path.abspath(__file__)))
_, cmd, kid, pid, rp, rx, what = sys.argv
k = json.load(open(os.path.join(V, "known_findings.json")))
dst = os.path.join("known", "%s.json" % kid)
shutil.copyfile(rp, os.path.join(V, dst))
k["findings"] = [f for f in k["findings"] if f["id"] != kid]
k["findings"].append({"id": kid, "property": pid, "match": {"sig": rx}, "what": what, "exemplar": dst})
json.dump(k, open(os.path.join(V, "known_findings.json"), "w"), indent=1)
print("added", kid)
