#!/bin/sh
# tools/take_seed.sh <name> <worktree> <property>: confirm, keep, and only then remove the worktree
out=$(tools/confirm_seed.sh "$1" "$2" "$3" 2>&1); echo "$out" | tail -2
if echo "$out" | grep -q "^kept seeded/"; then git -C /repo worktree remove --force "$2"; else echo "NOT KEPT: worktree $2 left in place"; fi
