#!/venv/bin/python
"""tools/adhoc.py <property> <case.json> [n_schedules]: run one hand-written case under n different seeded
schedules and print what the oracle says.  For exploring edge inputs before teaching them to a generator."""
import collections, json, os, sys
sys.path.insert(0, os.path.dirname(os.path.dirname(os.path.abspath(__file__))))
os.environ.setdefault("PYTHONHASHSEED", "0")
from sim import runner
pid, path = sys.argv[1], sys.argv[2]
n = int(sys.argv[3]) if len(sys.argv) > 3 else 1
case = json.load(open(path))
runner.preload()
chunks = [(k, {}, [{"idx": i, "case": case, "choices": None, "keep_log": False, "sstr": "adhoc/%d" % i}
                   for i in range(k * 25, min(n, (k + 1) * 25))]) for k in range((n + 24) // 25)]
res = runner.run_jobs(pid, chunks, 16, 300)
sigs = collections.Counter()
for tag, recs, note in res:
    if not recs:
        print("harness:", tag, note)
    for r in recs:
        for v in r.get("violations", []):
            sigs[v["sig"]] += 1
            if sigs[v["sig"]] == 1:
                print(v["sig"], json.dumps(v.get("detail"))[:600])
print("schedules:", n, "violating sigs:", dict(sigs))
