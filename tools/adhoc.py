#!/venv/bin/python
"""tools/adhoc.py <property> <case.json>: run one hand-written case (fresh PRNG schedule) and print what the
oracle says.  For exploring edge inputs before teaching them to a generator."""
import json, os, sys
sys.path.insert(0, os.path.dirname(os.path.dirname(os.path.abspath(__file__))))
os.environ.setdefault("PYTHONHASHSEED", "0")
from sim import runner
pid, path = sys.argv[1], sys.argv[2]
case = json.load(open(path))
runner.preload()
chunks = [(0, {}, [{"idx": 0, "case": case, "choices": None, "keep_log": False}])]
res = runner.run_jobs(pid, chunks, 1, 120)
tag, recs, note = res[0]
if not recs:
    print("harness:", tag, note)
for r in recs:
    for v in r.get("violations", []):
        print(v["sig"], json.dumps(v.get("detail"))[:600])
    print("violations:", len(r.get("violations", [])), "nontrivial:", r.get("nontrivial"))
