#!/bin/sh
# false-alarm guard: every claimed check over several seeds; prints only problems and a summary
# usage: tools/sweep.sh "C01 C02 ..." "1 2 3 ..."
cd "$(dirname "$0")/.." || exit 2
PROPS=${1:-$(python3 -c "import json; print(' '.join(c['property_id'] for c in json.load(open('MANIFEST.json'))['checks']))")}
SEEDS=${2:-"1 2 3 4 5 6 7 8 9 10"}
export VERIF_OUT=${VERIF_OUT:-/dev/shm/nrsim-sweep-$$}
bad=0
for p in $PROPS; do
  for s in $SEEDS; do
    out=$(VERIF_SEED=$s ./vcheck $p --tier quick 2>&1); rc=$?
    if [ $rc -ne 0 ]; then bad=$((bad+1)); echo "== $p seed=$s rc=$rc"; echo "$out" | grep -A3 "VIOLATION\|HARNESS" | cut -c1-1500; fi
  done
  echo "swept $p"
done
echo "sweep done: $bad failing runs"
[ "$VERIF_OUT" != "/verif" ] && rm -rf "$VERIF_OUT/evidence"
exit $bad
