#!/bin/sh
# tools/confirm_seed.sh <name> <worktree> <property> : confirm a sub-agent's seeded change in a fresh scratch copy,
# then keep it under seeded/<name>/ (patch.diff, demo, NOTES.md, meta.json)
set -u
NAME=$1; WT=$2; PROP=$3
V=$(cd "$(dirname "$0")/.." && pwd)
S=/dev/shm/seedchk-$$
rm -rf $S; mkdir -p $S
rsync -a --exclude .git --exclude htmlcov --exclude '*.egg-info' --exclude __pycache__ /repo/ $S/
DEMO=$(ls $WT/demo_*.py | head -1)
cp $DEMO $S/
D=$(basename $DEMO)
cd $S
if [ ! -f /dev/shm/seed-baseline.txt ]; then
  /venv/bin/python -m pytest -q -p no:cacheprovider --timeout=900 2>&1 | grep -E "^(FAILED|ERROR) test" | sort > /dev/shm/seed-baseline.txt
fi
/venv/bin/python $D > $S/demo_before.log 2>&1; RC0=$?
patch -p1 -s < $WT/patch.diff || { echo "PATCH FAILED"; exit 9; }
/venv/bin/python -m pytest -q -p no:cacheprovider --timeout=900 2>&1 > $S/pytest.log
grep -E "^(FAILED|ERROR) test" $S/pytest.log | sort > $S/after.txt; grep -v test_user_throttling /dev/shm/seed-baseline.txt > /dev/shm/seed-baseline.nf; grep -v test_user_throttling $S/after.txt > $S/after.nf
SUMMARY=$(tail -1 $S/pytest.log)
/venv/bin/python $D > $S/demo_after.log 2>&1; RC1=$?
SAME=no; cmp -s /dev/shm/seed-baseline.nf $S/after.nf && SAME=yes   # (test_user_throttling is flaky in the pinned baseline)
echo "$NAME: demo unpatched rc=$RC0, patched rc=$RC1, test outcomes identical=$SAME ($SUMMARY)"
if [ $RC0 -eq 0 ] && [ $RC1 -ne 0 ] && [ $SAME = yes ]; then
  mkdir -p $V/seeded/$NAME
  cp $WT/patch.diff $V/seeded/$NAME/patch.diff
  cp $DEMO $V/seeded/$NAME/
  [ -f $WT/NOTES.md ] && cp $WT/NOTES.md $V/seeded/$NAME/NOTES.md
  python3 - <<PY
import json
json.dump({"property": "$PROP", "origin": "independent sub-agent given only the property text and a scratch worktree",
  "needs": open("$WT/NOTES.md").read()[:1500] if __import__("os").path.exists("$WT/NOTES.md") else "",
  "confirmed": {"demo_unpatched_rc": $RC0, "demo_patched_rc": $RC1, "pytest_outcomes_identical_to_baseline": True,
                "pytest_summary": "$SUMMARY", "how": "tools/confirm_seed.sh in a fresh rsync copy of /repo HEAD under /dev/shm"}},
  open("$V/seeded/$NAME/meta.json", "w"), indent=1)
PY
  echo "kept seeded/$NAME"
fi
cd /; rm -rf $S
