#!/usr/bin/env python3
"""regenerate MANIFEST.json from the property modules that exist (run from /verif)"""
import importlib, json, os, sys
sys.path.insert(0, os.path.dirname(os.path.dirname(os.path.abspath(__file__))))
ALL = ["C%02d" % i for i in range(1, 21)]
checks, na = [], []
for pid in ALL:
    path = os.path.join("sim", "props", pid.lower() + ".py")
    if not os.path.exists(path):
        na.append({"property_id": pid, "reason": "check not built yet in this session (applicable; see DESIGN.md section 5)"})
        continue
    src = open(path).read()
    ns = {}
    # metadata only: evaluate the simple top-level constants without importing the simulator
    import ast
    tree = ast.parse(src)
    for node in tree.body:
        if isinstance(node, ast.Assign) and len(node.targets) == 1 and isinstance(node.targets[0], ast.Name):
            name = node.targets[0].id
            if name in ("ID", "LEVEL", "LEVEL_TEXT", "LEVEL_NOTE", "TECHNIQUE", "DESIGN_REF", "NOT_APPLICABLE"):
                ns[name] = ast.literal_eval(node.value)
    if ns.get("NOT_APPLICABLE"):
        na.append({"property_id": pid, "reason": ns["NOT_APPLICABLE"]})
        continue
    checks.append({
        "property_id": pid,
        "quick_cmd": "./vcheck %s --tier quick" % pid,
        "thorough_cmd": "./vcheck %s --tier thorough" % pid,
        "evidence_file": "evidence/%s.json" % pid,
        "replay_cmd_template": "./vcheck %s --replay {path}" % pid,
        "engine": "sim",
        "level_claimed": {
            "category": ns.get("LEVEL", "exploration"),
            "text": ns.get("LEVEL_TEXT", "seeded search over simulated workloads, schedules and faults; a clean batch is evidence, not proof"),
            "design_ref": ns.get("DESIGN_REF", "DESIGN.md section 5, " + pid),
        },
        "level_note": ns.get("LEVEL_NOTE", "trusts the simulator seams (DESIGN.md section 1) and the reference model (section 4)"),
        "technique": ns.get("TECHNIQUE", "deterministic simulation with fault injection"),
    })
m = {
    "version": 1,
    "setup_cmd": "./vcheck selftest smoke",
    "hooks": {
        "guard": "NOSTR_RELAY_VERIF",
        "enable": "no source hooks: every seam is a module attribute or injected argument patched by /verif/sim/seams.py at run time",
        "baseline_off_cmd": "cd /repo && /venv/bin/python -m pytest -ra -q -p no:cacheprovider --timeout=900 --continue-on-collection-errors",
        "source_commits": [],
        "add_only": True,
    },
    "engines": [{
        "name": "sim",
        "path": "sim/",
        "serves_properties": [c["property_id"] for c in checks],
        "kind_free_text": "deterministic simulator: scheduler-owned asyncio loop with virtual time, seeded choice sequence, inlined aiosqlite/executor/LMDB-writer/pool actors, fake LMDB engine with fault and crash seam, simulated websocket and TCP transports; fork-per-chunk supervisor with shrinking and replay files",
    }],
    "checks": checks,
    "not_applicable": na,
    "notes": "Exit codes: 0 held (KNOWN-FINDING lines possible), 1 VIOLATION, 2 harness error. Known findings and fixed defects: known_findings.json. VERIF_SEED, VERIF_TIER, VERIF_JOBS, VERIF_REPO honoured.",
}
json.dump(m, open("MANIFEST.json", "w"), indent=1)
print("claimed:", [c["property_id"] for c in checks])
